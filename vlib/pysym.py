"""pysym -- Engine B: a small symbolic interpreter that executes the *current source* of a named
function from /repo over z3 terms (DESIGN.md §2.2).

Scope: straight-line integer code with branches, loops over concrete sequences, lists of symbolic
integers, and the handful of str/list builtins that trees.treeoutput.parse_split_specification and
export_tabs use.  Anything outside the supported subset raises Unsupported -- the obligation is then
reported as inconclusive, never as discharged.

Numbers:  mode "int"  -- Python int = z3 Int (unbounded, exact).
          mode "fp"   -- chosen automatically when the function's source contains true division or a
                         float: ints are 32-bit bit-vectors (assumed inside the stated range, so no
                         wrap-around), `/` and `*` on floats are IEEE double operations with RNE,
                         floor is roundToIntegral(RTN), int() of a float is fp.to_sbv(RTZ).
Formatting and output (print, sys.stderr.write, '%' on strings) have empty bodies.
Paths are explored depth first by re-execution with a decision prefix; every branch on a symbolic
condition asks the solver for the feasibility of both sides.
"""
import ast
import inspect
import textwrap
import time

import z3


BVW = 32     # width of integers in floating-point mode (all values are assumed/asserted to stay below 2^27)


class Unsupported(Exception):
    pass


class _Raise(Exception):
    def __init__(self, name):
        self.name = name


class _Return(Exception):
    def __init__(self, value):
        self.value = value


class Numeral(object):
    """the decimal numeral of a symbolic non-negative integer (digits only)"""

    def __init__(self, term, neg=False, junk=False):
        self.term, self.neg, self.junk = term, neg, junk

    def isdigit(self):
        return not (self.neg or self.junk)


class Part(object):
    """a part of a split specification: numeral + one suffix character"""

    def __init__(self, numeral, suffix):
        self.numeral, self.suffix = numeral, suffix


class Spec(object):
    """split specification pattern: parts are Part objects or concrete strings"""

    def __init__(self, parts):
        self.parts = parts

    def split(self, sep):
        if sep != "_":
            raise Unsupported("split(%r)" % sep)
        return list(self.parts)


class Interp(object):
    def __init__(self, fn_source, fn_name, timeout_ms=120000):
        self.tree = ast.parse(textwrap.dedent(fn_source))
        self.fn = [n for n in ast.walk(self.tree) if isinstance(n, ast.FunctionDef) and n.name == fn_name][0]
        self.fp = any(isinstance(n, ast.Div) for n in ast.walk(self.fn)) or \
            any(isinstance(n, ast.Constant) and isinstance(n.value, float) for n in ast.walk(self.fn))
        self.timeout_ms = timeout_ms
        self.queries = 0
        self.solver_s = 0.0
        self.paths = 0

    # ---- numbers
    def num(self, name):
        return z3.BitVec(name, BVW) if self.fp else z3.Int(name)

    def const(self, v):
        return z3.BitVecVal(v, BVW) if self.fp else z3.IntVal(v)

    def is_sym(self, v):
        return isinstance(v, z3.ExprRef)

    def lift(self, v):
        if isinstance(v, bool):
            raise Unsupported("bool as number")
        if isinstance(v, int):
            return self.const(v)
        return v

    # ---- exploration
    def explore(self, args, assumptions):
        """yield (path condition, outcome) for every feasible path; outcome = ('return', value) | ('raise', name)"""
        stack = [[]]
        while stack:
            prefix = stack.pop()
            self.decisions = list(prefix)
            self.pos = 0
            self.pc = list(assumptions)
            self.pending = []
            env = dict(args)
            try:
                try:
                    self.block(self.fn.body, env)
                    out = ("return", None)
                except _Return as r:
                    out = ("return", r.value)
                except _Raise as r:
                    out = ("raise", r.name)
            finally:
                for alt in self.pending:
                    stack.append(alt)
            self.paths += 1
            yield list(self.pc), out

    def check(self, extra):
        s = z3.Solver()
        s.set("timeout", self.timeout_ms)
        s.add(*self.pc)
        s.add(*extra)
        t0 = time.time()
        r = s.check()
        self.solver_s += time.time() - t0
        self.queries += 1
        if r == z3.unknown:
            raise Unsupported("solver answered unknown on a branch condition")
        return r == z3.sat

    def branch(self, cond):
        """decide a condition: concrete bool or z3 Bool"""
        if isinstance(cond, bool):
            return cond
        if not z3.is_bool(cond):
            raise Unsupported("truth value of %r" % (cond,))
        cond = z3.simplify(cond)
        if z3.is_true(cond):
            return True
        if z3.is_false(cond):
            return False
        if self.pos < len(self.decisions):
            d = self.decisions[self.pos]
        elif self.fp:
            # floating-point mode: feasibility queries are as hard as the final one, so both sides are explored blindly;
            # an infeasible path only yields a final query that is trivially unsatisfiable
            self.pending.append(self.decisions[:self.pos] + [False])
            d = True
            self.decisions.append(d)
        else:
            t = self.check([cond])
            f = self.check([z3.Not(cond)])
            if t and f:
                self.pending.append(self.decisions[:self.pos] + [False])
                d = True
            elif t:
                d = True
            elif f:
                d = False
            else:
                raise Unsupported("infeasible path reached")
            self.decisions.append(d)
        self.pos += 1
        self.pc.append(cond if d else z3.Not(cond))
        return d

    # ---- statements
    def block(self, stmts, env):
        for st in stmts:
            self.stmt(st, env)

    def stmt(self, st, env):
        if isinstance(st, ast.Expr):
            if isinstance(st.value, ast.Constant):
                return                      # docstring
            self.expr(st.value, env)
        elif isinstance(st, ast.Assign):
            v = self.expr(st.value, env)
            for t in st.targets:
                self.assign(t, v, env)
        elif isinstance(st, ast.AugAssign):
            cur = self.expr(ast.copy_location(_load(st.target), st.target), env)
            v = self.binop(st.op, cur, self.expr(st.value, env))
            self.assign(st.target, v, env)
        elif isinstance(st, ast.If):
            if self.branch(self.truth(self.expr(st.test, env))):
                self.block(st.body, env)
            else:
                self.block(st.orelse, env)
        elif isinstance(st, ast.For):
            it = self.expr(st.iter, env)
            if not isinstance(it, (list, tuple)):
                raise Unsupported("loop over %r" % type(it))
            for x in list(it):
                self.assign(st.target, x, env)
                self.block(st.body, env)
            self.block(st.orelse, env)
        elif isinstance(st, ast.Return):
            raise _Return(self.expr(st.value, env) if st.value is not None else None)
        elif isinstance(st, ast.Raise):
            name = "Exception"
            if isinstance(st.exc, ast.Call) and isinstance(st.exc.func, ast.Name):
                name = st.exc.func.id
            elif isinstance(st.exc, ast.Name):
                name = st.exc.id
            raise _Raise(name)
        elif isinstance(st, ast.Pass):
            pass
        else:
            raise Unsupported("statement %s" % type(st).__name__)

    def assign(self, target, v, env):
        if isinstance(target, ast.Name):
            env[target.id] = v
        elif isinstance(target, ast.Tuple):
            if not isinstance(v, (list, tuple)) or len(v) != len(target.elts):
                raise Unsupported("unpacking")
            for t, x in zip(target.elts, v):
                self.assign(t, x, env)
        elif isinstance(target, ast.Subscript):
            obj = self.expr(target.value, env)
            idx = self.expr(target.slice, env)
            if not isinstance(obj, list) or not isinstance(idx, int):
                raise Unsupported("subscript assignment")
            obj[idx] = v
        else:
            raise Unsupported("assignment target %s" % type(target).__name__)

    # ---- expressions
    def truth(self, v):
        if isinstance(v, bool) or (self.is_sym(v) and z3.is_bool(v)):
            return v
        if v is None:
            return False
        if isinstance(v, (list, str, tuple)):
            return len(v) > 0
        raise Unsupported("truth of %r" % (v,))

    def expr(self, e, env):
        if isinstance(e, ast.Constant):
            return e.value
        if isinstance(e, ast.Name):
            if e.id in env:
                return env[e.id]
            if e.id in ("None", "True", "False"):
                return {"None": None, "True": True, "False": False}[e.id]
            if e.id in ("int", "sum", "max", "min", "floor", "enumerate", "len", "range", "ValueError", "sys", "str"):
                return ("builtin", e.id)
            raise Unsupported("name %s" % e.id)
        if isinstance(e, ast.List):
            return [self.expr(x, env) for x in e.elts]
        if isinstance(e, ast.Tuple):
            return tuple(self.expr(x, env) for x in e.elts)
        if isinstance(e, ast.BinOp):
            if isinstance(e.op, ast.Mod) and isinstance(e.left, ast.Constant) and isinstance(e.left.value, str):
                return "<formatted>"            # message formatting: empty body
            return self.binop(e.op, self.expr(e.left, env), self.expr(e.right, env))
        if isinstance(e, ast.UnaryOp):
            v = self.expr(e.operand, env)
            if isinstance(e.op, ast.Not):
                t = self.truth(v)
                return (not t) if isinstance(t, bool) else z3.Not(t)
            if isinstance(e.op, ast.USub):
                return -self.lift(v) if self.is_sym(v) else -v
            raise Unsupported("unary op")
        if isinstance(e, ast.BoolOp):
            vals = e.values
            if isinstance(e.op, ast.And):
                for x in vals:
                    t = self.truth(self.expr(x, env))
                    if not self.branch(t):
                        return False
                return True
            for x in vals:
                t = self.truth(self.expr(x, env))
                if self.branch(t):
                    return True
            return False
        if isinstance(e, ast.Compare):
            left = self.expr(e.left, env)
            res = True
            for op, r in zip(e.ops, e.comparators):
                right = self.expr(r, env)
                c = self.compare(op, left, right)
                if c is False:
                    return False
                if c is not True:
                    res = c if res is True else z3.And(res, c)
                left = right
            return res
        if isinstance(e, ast.Subscript):
            obj = self.expr(e.value, env)
            if isinstance(e.slice, ast.Slice):
                lo = self.expr(e.slice.lower, env) if e.slice.lower else None
                hi = self.expr(e.slice.upper, env) if e.slice.upper else None
                if isinstance(obj, Part):
                    if lo is None and hi == -1:
                        return obj.numeral
                    raise Unsupported("slice of a specification part")
                return obj[lo:hi]
            idx = self.expr(e.slice, env)
            if isinstance(obj, Part):
                if idx == -1:
                    return obj.suffix
                raise Unsupported("index into a specification part")
            if isinstance(idx, int):
                return obj[idx]         # IndexError of concrete code would surface as Python exception
            raise Unsupported("symbolic index")
        if isinstance(e, ast.Attribute):
            obj = self.expr(e.value, env)
            return ("method", obj, e.attr)
        if isinstance(e, ast.Call):
            return self.call(e, env)
        raise Unsupported("expression %s" % type(e).__name__)

    def compare(self, op, a, b):
        if isinstance(a, Part) or isinstance(b, Part):
            other = b if isinstance(a, Part) else a
            if isinstance(other, str):
                eq = False          # a numeral followed by a suffix is never the keyword
                return eq if isinstance(op, ast.Eq) else (not eq)
            raise Unsupported("comparison of a part")
        if self.is_sym(a) or self.is_sym(b):
            if a is None or b is None:
                return isinstance(op, (ast.NotEq, ast.IsNot))
            a, b = self.lift(a), self.lift(b)
            if z3.is_fp(a) or z3.is_fp(b):
                raise Unsupported("float comparison")
            if isinstance(op, ast.Lt):
                return a < b
            if isinstance(op, ast.LtE):
                return a <= b
            if isinstance(op, ast.Gt):
                return a > b
            if isinstance(op, ast.GtE):
                return a >= b
            if isinstance(op, ast.Eq):
                return a == b
            if isinstance(op, ast.NotEq):
                return a != b
            raise Unsupported("comparison op")
        if isinstance(op, ast.Eq):
            return a == b
        if isinstance(op, ast.NotEq):
            return a != b
        if isinstance(op, ast.Is):
            return a is b
        if isinstance(op, ast.IsNot):
            return a is not b
        if isinstance(op, ast.Lt):
            return a < b
        if isinstance(op, ast.LtE):
            return a <= b
        if isinstance(op, ast.Gt):
            return a > b
        if isinstance(op, ast.GtE):
            return a >= b
        raise Unsupported("comparison op")

    def tofp(self, v):
        if z3.is_fp(v):
            return v
        if isinstance(v, float):
            return z3.FPVal(v, z3.Float64())
        if isinstance(v, int):
            return z3.FPVal(float(v), z3.Float64())
        return z3.fpSignedToFP(z3.RNE(), v, z3.Float64())

    def binop(self, op, a, b):
        symbolic = self.is_sym(a) or self.is_sym(b)
        if not symbolic:
            if isinstance(op, ast.Add):
                return a + b
            if isinstance(op, ast.Sub):
                return a - b
            if isinstance(op, ast.Mult):
                return a * b
            if isinstance(op, ast.FloorDiv):
                return a // b
            if isinstance(op, ast.Div):
                return a / b
            if isinstance(op, ast.Mod):
                return a % b
            raise Unsupported("binary op")
        if isinstance(a, float) or isinstance(b, float) or (self.is_sym(a) and z3.is_fp(a)) or \
                (self.is_sym(b) and z3.is_fp(b)) or isinstance(op, ast.Div):
            if not self.fp:
                raise Unsupported("float arithmetic in integer mode")
            x, y = self.tofp(a), self.tofp(b)
            if isinstance(op, ast.Div):
                return z3.fpDiv(z3.RNE(), x, y)
            if isinstance(op, ast.Mult):
                return z3.fpMul(z3.RNE(), x, y)
            if isinstance(op, ast.Add):
                return z3.fpAdd(z3.RNE(), x, y)
            if isinstance(op, ast.Sub):
                return z3.fpSub(z3.RNE(), x, y)
            raise Unsupported("float op")
        a, b = self.lift(a), self.lift(b)
        if isinstance(op, ast.Add):
            return a + b
        if isinstance(op, ast.Sub):
            return a - b
        if isinstance(op, ast.Mult):
            return a * b
        if isinstance(op, ast.FloorDiv):
            # Python floor division; operands are non-negative on every path of interest, which is asserted
            if self.fp:
                return z3.UDiv(a, b)
            return a / b            # z3 Int division: floor for positive divisor
        if isinstance(op, ast.Mod):
            return z3.URem(a, b) if self.fp else a % b
        raise Unsupported("binary op")

    def call(self, e, env):
        f = self.expr(e.func, env)
        args = [self.expr(a, env) for a in e.args]
        if isinstance(f, tuple) and f[0] == "builtin":
            name = f[1]
            if name == "int":
                v = args[0]
                if isinstance(v, Numeral):
                    if v.junk:
                        raise _Raise("ValueError")
                    return -v.term if v.neg else v.term
                if self.is_sym(v) and z3.is_fp(v):
                    return z3.fpToSBV(z3.RTZ(), v, z3.BitVecSort(BVW))
                if self.is_sym(v):
                    return v
                return int(v)
            if name == "floor":
                v = args[0]
                if self.is_sym(v) and z3.is_fp(v):
                    return z3.fpRoundToIntegral(z3.RTN(), v)
                raise Unsupported("floor of %r" % (v,))
            if name == "sum":
                tot = 0
                for x in args[0]:
                    tot = self.binop(ast.Add(), tot, x)
                return tot
            if name == "max":
                seq = args[0] if len(args) == 1 else args
                if len(seq) == 0:
                    raise _Raise("ValueError")
                m = seq[0]
                for x in seq[1:]:
                    if self.is_sym(m) or self.is_sym(x):
                        mm, xx = self.lift(m), self.lift(x)
                        m = z3.If(xx > mm, xx, mm)
                    else:
                        m = max(m, x)
                return m
            if name == "enumerate":
                return [(i, x) for i, x in enumerate(args[0])]
            if name == "len":
                return len(args[0])
            if name == "range":
                return list(range(*args))
            if name == "str":
                return "<formatted>"
            raise Unsupported("call of %s" % name)
        if isinstance(f, tuple) and f[0] == "method":
            obj, attr = f[1], f[2]
            if attr == "write" or (isinstance(obj, tuple) and obj[0] == "method"):
                return None                 # sys.stderr.write(...): empty body
            if isinstance(obj, Spec) and attr == "split":
                return obj.split(*args)
            if isinstance(obj, Numeral) and attr == "isdigit":
                return obj.isdigit()
            if isinstance(obj, str):
                return getattr(obj, attr)(*args)
            if isinstance(obj, list):
                if attr == "append":
                    obj.append(args[0])
                    return None
                if attr == "index":
                    v = args[0]
                    for i, x in enumerate(obj):
                        c = self.compare(ast.Eq(), x, v)
                        if self.branch(c):
                            return i
                    raise _Raise("ValueError")
                raise Unsupported("list.%s" % attr)
            raise Unsupported("method %s of %r" % (attr, type(obj)))
        raise Unsupported("call")


def _load(target):
    t = ast.parse(ast.unparse(target), mode="eval").body
    return t


def function_source(module, name):
    """current source text of module.name (read from the file that is imported, i.e. /repo's working tree)"""
    return inspect.getsource(getattr(module, name))
