"""vcheck -- decide one property of /verif/properties.jsonl on /repo's current working tree."""
import argparse
import concurrent.futures
import hashlib
import importlib
import json
import os
import random
import shutil
import subprocess
import sys
import time

ROOT = os.path.dirname(os.path.dirname(os.path.abspath(__file__)))
PY = os.path.join(ROOT, ".venv", "bin", "python")
# VERIF_REPO: analyse another checkout than /repo (used only to try the checks on seeded changes in a
# scratch worktree; evidence is never written in that mode)
REPO = os.environ.get("VERIF_REPO", "/repo")
ALT = REPO != "/repo"
ENV = dict(os.environ, PYTHONPATH=ROOT + os.pathsep + REPO, VERIF_REPO=REPO, PYTHONWARNINGS="ignore",
           PYTHONDONTWRITEBYTECODE="1", PYTHONHASHSEED="0", WMAIER_TREETOOLS_VERIF="1")


def sh(cmd, timeout=None, stdin=None):
    return subprocess.run(cmd, env=ENV, cwd=ROOT, capture_output=True, text=True, timeout=timeout, input=stdin)


def repo_state():
    head = sh(["git", "-C", REPO, "rev-parse", "HEAD"]).stdout.strip()
    dirty = sh(["git", "-C", REPO, "status", "--porcelain", "--untracked-files=no"]).stdout.strip()
    return head + ("+dirty" if dirty else "")


def load_known():
    path = os.path.join(ROOT, "known_findings.json")
    if not os.path.exists(path):
        return {"open": [], "fixed": []}
    return json.load(open(path))


def run_shard(job):
    cond, sid, path, = job["cond"], job["sid"], job["path"]
    pto = cond.path_timeout or max(10.0, min(60.0, cond.timeout / 4.0))
    t0 = time.time()
    try:
        p = sh([PY, "-m", "vlib.worker", path, str(cond.timeout), str(pto)],
               timeout=cond.timeout * 2 + 180)
        res = None
        for line in p.stdout.splitlines():
            if line.startswith("@@RESULT@@"):
                res = json.loads(line[len("@@RESULT@@"):])
        if res is None:
            res = {"verdict": "harness_error",
                   "error": "worker produced no result (exit %s): %s" % (p.returncode, (p.stderr or p.stdout)[-2000:])}
    except subprocess.TimeoutExpired:
        res = {"verdict": "inconclusive", "error": "worker exceeded hard wall limit", "paths": 0, "paths_ok": 0}
    res["sid"] = sid
    res["elapsed_s"] = round(time.time() - t0, 2)
    return res


def run_lemma(spec, tier):
    """Engine B obligation: `python -m <module> <tier>` prints @@LEMMA@@{json}"""
    t0 = time.time()
    try:
        p = sh([PY, "-m", spec["module"], tier], timeout=spec.get("timeout", 1800))
        res = None
        for line in p.stdout.splitlines():
            if line.startswith("@@LEMMA@@"):
                res = json.loads(line[len("@@LEMMA@@"):])
        if res is None:
            res = {"verdict": "harness_error", "error": "lemma produced no result: " + (p.stderr or p.stdout)[-1500:]}
    except subprocess.TimeoutExpired:
        res = {"verdict": "inconclusive", "inconclusive": ["hard wall limit exceeded"]}
    res["elapsed_s"] = round(time.time() - t0, 2)
    res.setdefault("name", spec["module"])
    return res


def replay_file(path):
    p = sh([PY, "-m", "vlib.replay", path], timeout=600)
    return p.returncode, p.stdout.strip()


def main(argv=None):
    ap = argparse.ArgumentParser(prog="vcheck")
    ap.add_argument("prop")
    ap.add_argument("--tier", default=os.environ.get("VERIF_TIER", "quick"), choices=["quick", "thorough"])
    ap.add_argument("--replay")
    ap.add_argument("--only", help="run only conditions whose name contains this text")
    ap.add_argument("--jobs", type=int, default=int(os.environ.get("VERIF_JOBS", "16")))
    ap.add_argument("--no-evidence", action="store_true")
    args = ap.parse_args(argv)
    pid = args.prop
    if args.replay:
        rc, out = replay_file(os.path.abspath(args.replay))
        print(out)
        if rc == 1:
            print("VIOLATION property=%s replay=%s" % (pid, args.replay))
        return rc
    seed = int(os.environ.get("VERIF_SEED", "0"))
    t_start = time.time()
    sys.path.insert(0, ROOT)
    sys.path.insert(1, REPO)
    hmod = importlib.import_module("harness." + pid.lower())
    conds = hmod.conds(args.tier)
    if args.only:
        conds = [c for c in conds if args.only in c.name]
    bdir = os.path.join(ROOT, "build", pid + ("-alt%d" % os.getpid() if ALT else ""))
    shutil.rmtree(bdir, ignore_errors=True)
    os.makedirs(bdir)
    if hasattr(hmod, "prepare"):
        hmod.prepare(bdir, ENV)         # e.g. C18: fresh-process baseline, computed once per run
    jobs = []
    for c in conds:
        for sid, sfix in c.shards():
            path = os.path.join(bdir, sid.replace("/", "_").replace(".", "_") + ".py")
            with open(path, "w") as f:
                f.write(c.module_source(sfix))
            jobs.append({"cond": c, "sid": sid, "path": path, "sfix": sfix})
    random.Random(seed).shuffle(jobs)
    def weight(j):      # estimated size of the shard's input space: big shards first (better packing on 16 cores)
        w = 1.0
        for p in j["cond"].params:
            if p.name in j["sfix"]:
                continue
            if p.kind == "bool":
                w *= 2
            elif p.kind == "int" and p.lo is not None and p.hi is not None:
                w *= max(p.hi - p.lo, 1)
            else:
                w *= 4
        return w
    jobs.sort(key=lambda j: -weight(j))
    lemma_specs = hmod.lemmas(args.tier) if hasattr(hmod, "lemmas") and not args.only else []
    print("vcheck %s tier=%s repo=%s: %d conditions, %d shards, %d workers"
          % (pid, args.tier, repo_state(), len(conds), len(jobs), args.jobs), flush=True)
    results = {}
    lemma_results = []
    with concurrent.futures.ThreadPoolExecutor(max_workers=args.jobs) as ex:
        lfuts = [ex.submit(run_lemma, ls, args.tier) for ls in lemma_specs]
        futs = dict((ex.submit(run_shard, j), j) for j in jobs)
        for fut in concurrent.futures.as_completed(futs):
            j = futs[fut]
            results[j["sid"]] = (j, fut.result())
        lemma_results = [f.result() for f in lfuts]
    known = load_known()
    violations, known_hits, harness_errors, inconclusive = [], [], [], []
    per_cond = {}
    samples = []
    tot_paths = tot_ok = 0
    solver_cpu = 0.0
    rdir = os.path.join(bdir, "replays") if ALT else os.path.join(ROOT, "replays")
    os.makedirs(rdir, exist_ok=True)
    for sid in sorted(results):
        j, r = results[sid]
        c = j["cond"]
        pc = per_cond.setdefault(c.name, {"shards": 0, "confirmed": 0, "paths": 0, "cpu_s": 0.0,
                                          "bounds": c.bounds(), "functions": c.functions, "fn": c.fn,
                                          "timeout_s": c.timeout, "note": c.note, "verdicts": {}})
        pc["shards"] += 1
        pc["paths"] += r.get("paths", 0)
        pc["cpu_s"] = round(pc["cpu_s"] + r.get("cpu_s", 0.0), 2)
        pc["verdicts"][r["verdict"]] = pc["verdicts"].get(r["verdict"], 0) + 1
        tot_paths += r.get("paths", 0)
        tot_ok += r.get("paths_ok", 0)
        solver_cpu += r.get("cpu_s", 0.0)
        sym_names = [p.name for p in c.params if p.name not in j["sfix"]]
        for s in r.get("samples", [])[:1]:
            if len(samples) < 12:
                samples.append({"cond": c.name, "shard": sid, "input": dict(zip(sym_names, s), **j["sfix"])})
        v = r["verdict"]
        if v != "harness_error" and not r.get("reach_ok", False) and v != "counterexample" and not c.expect_fail:
            harness_errors.append("%s: vacuity twin not violated (%s)" % (sid, r.get("reach")))
            continue
        if v == "confirmed":
            if c.expect_fail:
                harness_errors.append("%s: reachability condition was confirmed" % sid)
            else:
                pc["confirmed"] += 1
        elif v == "counterexample":
            if c.expect_fail:
                pc["confirmed"] += 1
                continue
            if "cex_args" not in r:
                harness_errors.append("%s: cannot parse counterexample: %s" % (sid, r.get("cex_message")))
                continue
            kwargs = dict(c.fixed)
            kwargs.update(j["sfix"])
            kwargs.update(dict(zip(sym_names, r["cex_args"])))
            kwargs.update(r.get("cex_kwargs") or {})
            rec = {"property": pid, "cond": c.name, "fn": c.fn, "kwargs": kwargs,
                   "crosshair_message": r.get("cex_message"), "repo": repo_state()}
            h = hashlib.sha1(json.dumps(kwargs, sort_keys=True, default=str).encode()).hexdigest()[:10]
            rpath = os.path.join(rdir, "%s-%s-%s.json" % (pid, c.name, h))
            with open(rpath, "w") as f:
                json.dump(rec, f, indent=1, sort_keys=True, default=str)
            rc, out = replay_file(rpath)
            if rc == 1:
                kf = match_known(known, pid, c, kwargs)
                if kf is not None:
                    known_hits.append((kf, rpath))
                else:
                    violations.append((rpath, out))
            elif rc == 0:
                harness_errors.append("%s: counterexample does not reproduce in plain Python (%s): %s"
                                      % (sid, rpath, r.get("cex_message")))
            else:
                harness_errors.append("%s: replay failed: %s" % (sid, out))
        elif v in ("pre_unsat",):
            harness_errors.append("%s: unable to meet precondition" % sid)
        elif v == "harness_error":
            harness_errors.append("%s: %s" % (sid, r.get("error")))
        else:
            inconclusive.append("%s (%d paths explored, %s)" % (sid, r.get("paths", 0), r.get("error") or
                                                               "; ".join(m[1] for m in r.get("messages", []))[:200]))
    # ---- Engine B lemmas
    lemma_ob = lemma_dis = 0
    for ls, lr in zip(lemma_specs, lemma_results):
        lemma_ob += max(lr.get("obligations", 1), 1)
        lemma_dis += lr.get("discharged", 0)
        solver_cpu += lr.get("solver_s", 0.0)
        tot_paths += lr.get("paths", 0)
        tot_ok += lr.get("paths", 0)
        v = lr.get("verdict")
        if v == "counterexample":
            rec = {"property": pid, "cond": lr["name"], "fn": ls["replay"], "kwargs": lr["cex"], "repo": repo_state(),
                   "solver_witness": True}
            h = hashlib.sha1(json.dumps(lr["cex"], sort_keys=True).encode()).hexdigest()[:10]
            rpath = os.path.join(rdir, "%s-%s-%s.json" % (pid, lr["name"], h))
            json.dump(rec, open(rpath, "w"), indent=1, sort_keys=True)
            rc, out = replay_file(rpath)
            if rc == 1:
                violations.append((rpath, out))
            else:
                harness_errors.append("%s: solver witness %r does not reproduce against the real function" % (lr["name"], lr["cex"]))
        elif v == "harness_error":
            harness_errors.append("%s: %s" % (lr["name"], lr.get("error")))
        elif v != "discharged":
            for msg in lr.get("inconclusive", ["?"]):
                inconclusive.append("%s: %s" % (lr["name"], msg))
        for smp in lr.get("samples", [])[:2]:
            samples.append({"lemma": lr["name"], "obligation": smp})
    # ---- regression witnesses of repaired findings and witnesses of open findings (plain replays)
    wit_run = 0
    for kind in ("fixed", "open"):
        for e in known.get(kind, []):
            if e.get("property") != pid or "witness" not in e:
                continue
            wit_run += 1
            wpath = os.path.join(bdir, "witness-%s.json" % e["id"])
            rec = dict(e["witness"], property=pid, cond="witness-" + e["id"])
            json.dump(rec, open(wpath, "w"))
            rc, out = replay_file(wpath)
            if kind == "fixed" and rc != 0:
                keep = os.path.join(rdir, "%s-witness-%s.json" % (pid, e["id"]))
                shutil.copy(wpath, keep)
                violations.append((keep, "repaired finding is back: %s\n%s" % (e["what"], out)))
            elif kind == "open" and rc == 1:
                known_hits.append((e, wpath))
    seen = set()
    for e, rpath in known_hits:
        if e["id"] not in seen:
            seen.add(e["id"])
            print("KNOWN-FINDING: property=%s %s" % (pid, e["what"]))
    for msg in inconclusive:
        print("INCONCLUSIVE property=%s %s" % (pid, msg))
    for msg in harness_errors:
        print("HARNESS-ERROR property=%s %s" % (pid, msg))
    for rpath, out in violations:
        print(out)
        print("VIOLATION property=%s replay=%s" % (pid, os.path.relpath(rpath, ROOT)))
    obligations = len(jobs) + lemma_ob
    discharged = sum(pc["confirmed"] for pc in per_cond.values()) + lemma_dis
    wall = round(time.time() - t_start, 2)
    print("vcheck %s: %d/%d obligations discharged, %d inconclusive, %d violations, %d harness errors, "
          "%d paths, %.0f s CPU in CrossHair/z3, %.0f s wall"
          % (pid, discharged, obligations, len(inconclusive), len(violations), len(harness_errors),
             tot_paths, solver_cpu, wall), flush=True)
    if not args.no_evidence and not args.only and not ALT:
        ev = {
            "property_id": pid, "tier": args.tier, "seed": seed, "level": "model_checking",
            "wall_s": wall, "violations": len(violations),
            "coverage": {
                "evaluations": max(tot_paths, 1),
                "distinct_nontrivial": tot_ok,
                "rule": "one evaluation = one execution path of the real code explored by CrossHair "
                        "(distinct by construction: the solver never revisits a path; a path stands for all "
                        "inputs that take the same branches). distinct_nontrivial counts the paths on which the precondition "
                        "(well-formed input inside the bound) held, the real functions ran to completion and the oracle "
                        "judged their result (paths whose input the harness excludes from the claim, e.g. a discontinuous "
                        "tree for a bracket-only condition, are explored but not counted).",
                "samples": samples or [{"note": "no completed path"}],
                "obligations": obligations, "discharged": discharged, "inconclusive": len(inconclusive),
                "exhaustive": bool(obligations and discharged == obligations),
                "checker_cmd": "./vcheck %s --tier %s" % (pid, args.tier),
                "solver": "crosshair-tool 0.0.110 + z3 (path feasibility, exhaustion of the path tree)",
                "solver_cpu_s": round(solver_cpu, 1),
                "conditions": per_cond,
                "lemmas": lemma_results,
                "regression_witnesses_replayed": wit_run,
                "inconclusive_list": inconclusive, "harness_errors": harness_errors,
                "repo": repo_state(),
                "outside_claim": getattr(hmod, "OUTSIDE", []),
            },
            "assumptions": getattr(hmod, "ASSUMPTIONS", []),
        }
        extra = getattr(hmod, "extra_evidence", None)
        if extra:
            ev["coverage"].update(extra())
        os.makedirs(os.path.join(ROOT, "evidence"), exist_ok=True)
        with open(os.path.join(ROOT, "evidence", pid + ".json"), "w") as f:
            json.dump(ev, f, indent=1, sort_keys=True, default=str)
        if args.tier == "thorough":     # keep the record of the last thorough run next to the (usually quick) evidence file
            os.makedirs(os.path.join(ROOT, "evidence", "thorough"), exist_ok=True)
            with open(os.path.join(ROOT, "evidence", "thorough", pid + ".json"), "w") as f:
                json.dump(ev, f, indent=1, sort_keys=True, default=str)
    if violations:
        return 1
    if harness_errors:
        return 2
    return 0


def match_known(known, pid, cond, kwargs):
    """An open finding matches a counterexample when its class predicate holds for the input."""
    for e in known.get("open", []):
        if e.get("property") != pid:
            continue
        m = e.get("match")
        if not m or m.get("cond") not in (None, cond.name):
            continue
        if "predicate" in m:
            mod, func = m["predicate"].split(":")
            p = sh([PY, "-c", "import sys,json,importlib; k=json.loads(sys.stdin.read()); "
                    "sys.exit(0 if getattr(importlib.import_module(%r),%r)(**k) else 1)" % (mod, func)],
                   stdin=json.dumps(kwargs))
            if p.returncode == 0:
                return e
        elif m.get("kwargs") == kwargs:
            return e
    return None


if __name__ == "__main__":
    try:
        rc = main()
    except SystemExit:
        raise
    except BaseException as e:      # noqa -- a crash of the runner is a harness error (2), never a verdict
        import traceback
        traceback.print_exc()
        print("HARNESS-ERROR runner crashed: %s: %s" % (type(e).__name__, e))
        rc = 2
    sys.exit(rc)
