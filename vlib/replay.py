"""Re-execute a recorded counterexample against the real code in plain Python
(no CrossHair, no tracing).  Exit 1 (and print the reason) if the violation
reproduces, 0 if the property holds on this input, 3 on a broken record."""
import importlib
import json
import sys
import warnings

warnings.simplefilter("ignore")


def run_record(rec):
    """Return '' if the property holds on the recorded input, else the reason."""
    mod, func = rec["fn"].split(":")
    fn = getattr(importlib.import_module(mod), func)
    try:
        r = fn(**rec["kwargs"])
    except Exception as e:      # noqa -- an escaping exception is a violation as well
        import traceback
        tb = traceback.extract_tb(e.__traceback__)
        where = "%s:%d" % (tb[-1].filename, tb[-1].lineno) if tb else "?"
        return "exception %s: %s (at %s)" % (type(e).__name__, e, where)
    if r is None or r is True or r == "~":
        return ""
    return str(r)


def main():
    try:
        rec = json.load(open(sys.argv[1]))
    except Exception as e:
        print("replay: cannot load record: %s" % e)
        return 3
    reason = run_record(rec)
    if reason:
        print("replay: property=%s cond=%s REPRODUCED: %s" % (rec.get("property"), rec.get("cond"), reason))
        print("replay: input=%s" % json.dumps(rec["kwargs"], sort_keys=True))
        return 1
    print("replay: property=%s cond=%s holds on this input" % (rec.get("property"), rec.get("cond")))
    return 0


if __name__ == "__main__":
    sys.exit(main())
