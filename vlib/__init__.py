"""vlib -- runner for solver-based checks of wmaier/treetools (see DESIGN.md)."""
