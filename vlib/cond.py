"""Condition specifications and generation of CrossHair condition modules.

A *condition* is a harness function `fn(**args) -> str` ('' = the property
held on this input, '~' = the input is excluded from the claim, otherwise a
short reason) together with the declaration
of its symbolic parameters.  From a condition the runner generates, per
shard, a tiny module with

    def cond(<symbolic params>) -> bool:   pre: <bounds>   post: _
    def reach(<symbolic params>) -> bool:  pre: <bounds>   post: False   (vacuity twin)

which CrossHair executes symbolically (z3 decides path feasibility and
exhaustion).  The generated module imports the harness, which imports the
real modules from /repo -- nothing is cached between runs.
"""
import itertools
import json


class P(object):
    """A symbolic parameter.

    kind 'int'  : lo <= x < hi   (hi None = unbounded above, lo None = unbounded below)
    kind 'bool' : symbolic boolean
    kind 'str'  : len(x) <= hi, characters restricted to `alphabet` (string) if given
    """

    def __init__(self, name, kind='int', lo=0, hi=None, alphabet=None):
        self.name, self.kind, self.lo, self.hi, self.alphabet = \
            name, kind, lo, hi, alphabet

    def typ(self):
        return {'int': 'int', 'bool': 'bool', 'str': 'str'}[self.kind]

    def pre(self):
        n = self.name
        if self.kind == 'int':
            parts = []
            if self.lo is not None:
                parts.append("%d <= %s" % (self.lo, n))
            if self.hi is not None:
                parts.append("%s < %d" % (n, self.hi))
            return " and ".join(parts)
        if self.kind == 'str':
            parts = ["len(%s) <= %d" % (n, self.hi)]
            if self.alphabet is not None:
                parts.append("all(_c in %r for _c in %s)" % (self.alphabet, n))
            return " and ".join(parts)
        return ""

    def domain(self):
        if self.kind == 'bool':
            return [False, True]
        if self.kind == 'int' and self.lo is not None and self.hi is not None:
            return list(range(self.lo, self.hi))
        raise ValueError("cannot shard on unbounded parameter %s" % self.name)

    def bound_text(self):
        if self.kind == 'bool':
            return "%s: bool" % self.name
        if self.kind == 'str':
            return "%s: str, len <= %s%s" % (self.name, self.hi,
                                            (" over %r" % self.alphabet) if self.alphabet else "")
        lo = "-inf" if self.lo is None else str(self.lo)
        hi = "+inf" if self.hi is None else str(self.hi - 1)
        return "%s: int in [%s, %s]" % (self.name, lo, hi)


class Cond(object):
    """One condition = harness function + parameter declaration + sharding."""

    def __init__(self, name, fn, params, fixed=None, pre=(), shard=(),
                 timeout=120, functions=(), note="", path_timeout=None,
                 expect_fail=False, skip=None):
        self.name = name            # unique within the property
        self.fn = fn                # "harness.c20:roundtrip"
        self.params = list(params)
        self.fixed = dict(fixed or {})
        self.pre = list(pre)        # extra precondition expressions over the params
        self.shard = list(shard)    # names of params enumerated concretely (one shard per value combination)
        self.timeout = timeout      # CrossHair per_condition_timeout of one shard (CPU seconds)
        self.path_timeout = path_timeout
        self.functions = list(functions)   # real functions executed (evidence)
        self.note = note
        self.expect_fail = expect_fail     # reachability-only condition (must be violated)
        self.skip = skip                   # predicate over the shard constants: shard is vacuous by precondition

    def bounds(self):
        b = [p.bound_text() for p in self.params]
        b += ["pre: " + e for e in self.pre]
        if self.fixed:
            b.append("fixed: " + json.dumps(self.fixed, sort_keys=True, default=str))
        return b

    def shards(self):
        """Yield (shard_id, fixed_values_for_shard_params)."""
        pm = dict((p.name, p) for p in self.params)
        doms = [pm[n].domain() for n in self.shard]
        for combo in itertools.product(*doms):
            sid = self.name + "".join("-%s.%s" % (n, int(v)) for n, v in zip(self.shard, combo))
            sfix = dict(zip(self.shard, combo))
            if self.skip is not None and self.skip(sfix):
                continue
            yield sid, sfix

    def module_source(self, shard_fixed):
        mod, func = self.fn.split(":")
        sym = [p for p in self.params if p.name not in shard_fixed]
        sig = ", ".join("%s: %s" % (p.name, p.typ()) for p in sym)
        pres = [p.pre() for p in sym if p.pre()]
        # extra preconditions: substitute the shard constants textually through a namespace
        call_args = []
        for p in self.params:
            if p.name in shard_fixed:
                call_args.append("%s=%r" % (p.name, shard_fixed[p.name]))
            else:
                call_args.append("%s=%s" % (p.name, p.name))
        for k, v in sorted(self.fixed.items()):
            call_args.append("%s=%r" % (k, v))
        consts = "".join("%s = %r\n" % (k, v) for k, v in sorted(shard_fixed.items()))
        prelines = "".join("    pre: %s\n" % e for e in pres + self.pre)
        src = '''# generated -- do not edit
import %(mod)s as _h
from crosshair.tracers import NoTracing as _NoTracing
%(consts)s
STATS = {"paths": 0, "ok": 0, "samples": []}
_REPO_MODULES = ["trees.trees", "trees.misc", "trees.grammarconst", "trees.grammaranalysis", "trees.transformconst",
                 "trees.treeanalysis", "trees.treeinput", "trees.treeoutput", "trees.grammarinput", "trees.grammaroutput",
                 "trees.transitionoutput", "trees.transform", "trees.grammar", "trees.transitions"]


def _fresh_state():
    """CrossHair re-executes every path in this one process.  So that state which the code under test keeps between
    calls (function attributes, mutable default arguments, module-level caches) cannot leak from one path into the
    next -- where it could hide a history dependence as well as fake one -- the repository's modules are re-executed
    from their source files before every path; each path therefore starts from the state of a freshly started process.
    (The harness re-installs its stubs at the start of a path.)"""
    import importlib
    import sys
    with _NoTracing():
        for name in _REPO_MODULES:
            mod = sys.modules.get(name)
            if mod is not None:
                importlib.reload(mod)

def _sample(args):
    with _NoTracing():
        if len(STATS["samples"]) < 3:
            STATS["samples"].append([a if type(a) in (int, bool, str) else "<symbolic>" for a in args])

def cond(%(sig)s) -> bool:
    """
%(prelines)s    post: _
    """
    STATS["paths"] += 1
    _fresh_state()
    try:
        r = _h.%(func)s(%(call)s)
    except Exception:
        # either the code under test raised, or formatting a failure message from symbolic values tripped CrossHair
        # ("proxy intolerance", which would silently turn the failing path into an unknown one): report the path as a
        # counterexample -- the plain-Python replay decides whether it is real
        return False
    _sample([%(symnames)s])
    if r == "":
        STATS["ok"] += 1
        return True
    if r == "~":        # input excluded from the claim (trivially true): explored, but not counted as non-trivial
        return True
    return False

def reach(%(sig)s) -> bool:
    """
%(prelines)s    post: False
    """
    _fresh_state()
    _h.%(func)s(%(call)s)
    return True
''' % dict(mod=mod, func=func, sig=sig, prelines=prelines, consts=consts,
           call=", ".join(call_args), symnames=", ".join(p.name for p in sym))
        return src
