"""Run one shard of one condition under CrossHair and print a JSON result line.

usage: python -m vlib.worker <module.py> <per_condition_timeout> <per_path_timeout>
Exit code is always 0 unless the worker itself is broken; the verdict is in the JSON.
"""
import ast
import importlib.util
import json
import os
import sys
import time
import warnings

warnings.simplefilter("ignore")


def parse_call_args(message):
    """Extract the literal arguments of 'when calling f(a, b, ...)' from a CrossHair message."""
    key = "when calling "
    if key not in message:
        return None
    text = message[message.index(key) + len(key):]
    for end in range(len(text), 0, -1):
        if text[end - 1] != ")":
            continue
        try:
            node = ast.parse(text[:end], mode="eval").body
        except SyntaxError:
            continue
        if isinstance(node, ast.Call):
            try:
                args = [ast.literal_eval(a) for a in node.args]
                kwargs = dict((k.arg, ast.literal_eval(k.value)) for k in node.keywords)
            except (ValueError, SyntaxError):
                return None
            return args, kwargs
    return None


def main():
    path, cto, pto = sys.argv[1], float(sys.argv[2]), float(sys.argv[3])
    from crosshair.core_and_libs import analyze_function, run_checkables, MessageType
    from crosshair.options import AnalysisOptionSet, AnalysisKind
    import crosshair.core as _core
    # CrossHair may "short-circuit" a callee that carries a contract (its own model of builtin hash() does):
    # it forks into "skip the body and return an unconstrained value" and "call into it".  With Tree.__hash__ the
    # skipped branch always dies (a symbolic __hash__ result is a TypeError), doubling the work at every hash()
    # call.  Always calling into the real function removes only that alternative branch.
    _core.ShortCircuitingContext.make_interceptor = lambda self, original: original
    # CrossHair bypasses functools.lru_cache while tracing (every call goes to the wrapped function).  That changes
    # the behaviour of code that caches mutable results, so the real cache semantics are restored.
    from functools import _lru_cache_wrapper
    _core._PATCH_REGISTRATIONS.pop(_lru_cache_wrapper.__call__, None)
    spec = importlib.util.spec_from_file_location("vcond_" + os.path.basename(path)[:-3].replace("-", "_"), path)
    mod = importlib.util.module_from_spec(spec)
    sys.modules[spec.name] = mod
    spec.loader.exec_module(mod)
    out = {"module": path}
    # ---- vacuity twin first (cheap: stops at the first completed path)
    t0 = time.time()
    opts = AnalysisOptionSet(per_condition_timeout=min(cto, 60.0), per_path_timeout=pto,
                             report_all=True, analysis_kind=[AnalysisKind.PEP316])
    msgs = run_checkables(analyze_function(mod.reach, opts))
    out["reach"] = [(m.state.name, m.message) for m in msgs]
    out["reach_ok"] = any(m.state in (MessageType.POST_FAIL, MessageType.EXEC_ERR) for m in msgs)
    out["reach_s"] = round(time.time() - t0, 2)
    # ---- the condition
    mod.STATS["paths"] = 0
    mod.STATS["ok"] = 0
    mod.STATS["samples"] = []
    t0 = time.time()
    c0 = time.process_time()
    opts = AnalysisOptionSet(per_condition_timeout=cto, per_path_timeout=pto,
                             report_all=True, analysis_kind=[AnalysisKind.PEP316])
    msgs = run_checkables(analyze_function(mod.cond, opts))
    out["wall_s"] = round(time.time() - t0, 2)
    out["cpu_s"] = round(time.process_time() - c0, 2)
    out["paths"] = mod.STATS["paths"]
    out["paths_ok"] = mod.STATS["ok"]
    out["samples"] = mod.STATS["samples"]
    out["messages"] = [(m.state.name, m.message) for m in msgs]
    verdict = "inconclusive"
    cex = None
    for m in msgs:
        if m.state in (MessageType.POST_FAIL, MessageType.EXEC_ERR, MessageType.POST_ERR):
            verdict = "counterexample"
            cex = parse_call_args(m.message)
            out["cex_message"] = m.message
            break
        if m.state == MessageType.CONFIRMED:
            verdict = "confirmed"
        elif m.state == MessageType.PRE_UNSAT:
            verdict = "pre_unsat"
        elif m.state in (MessageType.SYNTAX_ERR, MessageType.IMPORT_ERR):
            verdict = "harness_error"
            out["error"] = m.message
    if not msgs:
        verdict = "harness_error"
        out["error"] = "no checkable produced"
    out["verdict"] = verdict
    if cex is not None:
        out["cex_args"], out["cex_kwargs"] = cex
    sys.stdout.write("\n@@RESULT@@" + json.dumps(out, default=str) + "\n")
    sys.stdout.flush()


if __name__ == "__main__":
    main()
