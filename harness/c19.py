"""C19 Tree navigation API agrees with a set-based model of the tree."""
import itertools
from vlib.cond import Cond, P
from trees import trees, treeoutput
from harness.symtree import (skeletons, pos_params, distinct_expr, build_e1, cover, kids, wf)

FUNCS = ["trees.children", "trees.terminals", "trees.preorder", "trees.postorder", "trees.left_sibling",
         "trees.right_sibling", "trees.dominance", "trees.lca", "trees.levels", "treeoutput.compute_export_numbering"]
ASSUMPTIONS = ["token positions are arbitrary pairwise distinct integers (a superset of the numbering 1..n of a "
               "well-formed tree), so each explored path stands for every position assignment with the same relative order",
               "tree shapes: every shape with <= M constituents and exactly N tokens up to renaming of tokens "
               "(the positions are symbolic, so which token goes where is covered by the solver)"]
OUTSIDE = ["shapes with more constituents/tokens than the bound"]
SK = {}


def _sk(mmax, n):
    if (mmax, n) not in SK:
        SK[(mmax, n)] = skeletons(mmax, n)
    return SK[(mmax, n)]


def _anc(x):
    r = []
    while x is not None:
        r.append(x)
        x = x.parent
    return r


def _height(x):
    return 0 if not x.children else 1 + max(_height(c) for c in x.children)


def _index(lst, x):
    for i, y in enumerate(lst):
        if y is x:
            return i
    return -1


def nav(mmax, n, sk, rev, **kw):
    m, ip, lp = _sk(mmax, n)[sk]
    nums = [kw["p%d" % j] for j in range(1, n + 1)]
    nodes, leaves = build_e1(m, n, ip, lp, rev=rev, nums=nums)
    allx = nodes + leaves
    root = nodes[0]
    for x in allx:
        exp = kids(x)
        got = trees.children(x)
        if len(got) != len(exp) or any(a is not b for a, b in zip(got, exp)):
            return "children() not ordered by leftmost token"
        if [t.data['num'] for t in trees.terminals(x)] != cover(x):
            return "terminals() not in token order"
        dom = list(trees.dominance(x))
        anc = _anc(x)
        if len(dom) != len(anc) or any(a is not b for a, b in zip(dom, anc)):
            return "dominance() is not the path to the root"
        l, r = trees.left_sibling(x), trees.right_sibling(x)
        if x.parent is None:
            if l is not None or r is not None:
                return "root has a sibling"
        else:
            sib = kids(x.parent)
            i = _index(sib, x)
            el = sib[i - 1] if i > 0 else None
            er = sib[i + 1] if i + 1 < len(sib) else None
            if l is not el:
                return "left_sibling wrong"
            if r is not er:
                return "right_sibling wrong"
            if l is not None and trees.right_sibling(l) is not x:
                return "siblings not mutually inverse"
    pre = list(trees.preorder(root))
    post = list(trees.postorder(root))
    for seq, name in ((pre, "preorder"), (post, "postorder")):
        if len(seq) != len(allx) or any(_index(seq, x) < 0 for x in allx):
            return "%s does not visit every node exactly once" % name
    for x in allx:
        for a in _anc(x)[1:]:
            if _index(pre, a) > _index(pre, x):
                return "preorder visits a descendant before its ancestor"
            if _index(post, a) < _index(post, x):
                return "postorder visits an ancestor before its descendant"
    for x, y in itertools.combinations(allx, 2):
        ax, ay = _anc(x), _anc(y)
        got = trees.lca(x, y)
        if _index(ay, x) >= 0 or _index(ax, y) >= 0:
            exp = None
        else:
            exp = [a for a in ax if _index(ay, a) >= 0][0]
        if got is not exp:
            return "lca wrong"
        if trees.lca(y, x) is not exp:
            return "lca not symmetric"
    lv, rl = trees.levels(root)
    for x in nodes:
        if rl.get(x) != _height(x):
            return "levels: %r, longest downward path %d" % (rl.get(x), _height(x))
        if _index(lv.get(_height(x), []), x) < 0:
            return "levels: node missing from its level list"
    if sum(len(v) for v in lv.values()) != len(nodes):
        return "levels lists a node twice or a token"
    treeoutput.compute_export_numbering(root)
    cn = sorted(x.data['num'] for x in nodes)
    if cn != [0] + list(range(500, 500 + m - 1)) or root.data['num'] != 0:
        return "export numbering is not a bijection onto 0, 500.."
    for x in nodes[1:]:
        for a in _anc(x)[1:]:
            if a is not root and not x.data['num'] < a.data['num']:
                return "constituent numbered above its ancestor"
    for x, y in itertools.combinations(nodes[1:], 2):
        hx, hy = _height(x), _height(y)
        if hx == hy:
            if (cover(x)[0] < cover(y)[0]) != (x.data['num'] < y.data['num']):
                return "not left to right within a level"
        elif (hx < hy) != (x.data['num'] < y.data['num']):
            return "lower level numbered above a higher one"
    if [l.data['num'] for l in leaves] != nums:
        return "token positions changed"
    return ""


def restructure(m, n, rev, **kw):
    """levels / export numbering agree with the model also after the tree was numbered once and then restructured"""
    from trees import transform
    from harness.symtree import e1_get
    ip, lp = e1_get(kw, m, n)
    nodes, leaves = build_e1(m, n, ip, lp, rev=rev)
    root = nodes[0]
    for step in ("fresh", "after root_attach", "after delete_terminal"):
        if step == "after root_attach":
            root = transform.root_attach(root)
        elif step == "after delete_terminal":
            if n < 2:
                break
            trees.delete_terminal(root, leaves[0])
            leaves = leaves[1:]
        cons = [x for x in nodes if x.children or x is root]
        cons = [x for x in cons if x is root or _index(_anc(x), root) >= 0]
        cons = [x for x in cons if x.children]
        lv, rl = trees.levels(root)
        for x in cons:
            if rl.get(x) != _height(x):
                return "%s: level of %s is %r, longest downward path %d" % (step, x.data['label'], rl.get(x), _height(x))
        treeoutput.compute_export_numbering(root)
        if sorted(x.data['num'] for x in cons) != [0] + list(range(500, 500 + len(cons) - 1)):
            return "%s: export numbering is not a bijection onto 0, 500.." % step
        for x in cons:
            for a in _anc(x)[1:]:
                if a is not root and not x.data['num'] < a.data['num']:
                    return "%s: constituent numbered above its ancestor" % step
    return ""


def conds(tier):
    q = tier == "quick"
    cs = []
    for (mmax, n, to) in ([(3, 3, 150), (3, 4, 400)] if q else [(4, 3, 600), (4, 4, 1500), (3, 5, 3000)]):
        ns = len(_sk(mmax, n))
        cs.append(Cond("nav-m%d-n%d" % (mmax, n), "harness.c19:nav",
                       [P("sk", "int", 0, ns), P("rev", "bool")] + pos_params(n),
                       fixed={"mmax": mmax, "n": n}, pre=[distinct_expr(n)], shard=["sk", "rev"],
                       timeout=to, functions=FUNCS,
                       note="%d skeletons with <= %d constituents and %d tokens; positions arbitrary distinct ints" % (ns, mmax, n)))
    from harness.symtree import e1_params, e1_wf_expr
    for (m, n) in ([(2, 3), (3, 3), (3, 4)] if q else [(3, 3), (3, 4), (4, 4)]):
        cs.append(Cond("restructure-m%d-n%d" % (m, n), "harness.c19:restructure", e1_params(m, n) + [P("rev", "bool")],
                       fixed={"m": m, "n": n}, pre=[e1_wf_expr(m, n)], shard=["rev"] + (["lp1"] if m * n >= 12 else []) + (["lp2"] if m * n >= 16 else []),
                       timeout=600 if q else 3000, functions=FUNCS[-2:] + ["transform.root_attach", "trees.delete_terminal"],
                       note="levels and export numbering recomputed after the tree changed"))
    return cs
