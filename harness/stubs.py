"""Environment stubs (DESIGN.md §3.3): an in-memory file system and captured standard streams,
installed by assigning module attributes of the real modules (no change to /repo).

Contracts assumed (part of every claim that uses them):
 * a file is a byte string; text mode is bytes.decode / str.encode with the real codec of the given
   encoding (None = utf-8, the locale default of this sandbox); '\n' is the only line terminator that
   occurs; iteration yields lines including their terminator; read(1) returns one character;
 * a directory is the set of MemFS names below a prefix;
 * print(..., file=f) is f.write(sep.join(map(str, args)) + end);
 * messages written to stderr have no effect on results; stdout text is collected and returned;
 * a file that exists only on disk (an unpacked temporary copy) is read lazily through CPython's own
   I/O stack with a read-ahead of 8 bytes (a reader may fetch its bytes in pieces of any size);
 * every in-memory file is also written to a per-process scratch directory (the current directory while
   a path runs; removed at exit) and reads fall back to it, so misc.gunzip (gzip, tempfile) and any code
   that reaches the file system through another API than the stubbed open() work on real files.
"""
import atexit as _atexit
import builtins as _builtins
import gzip as _gzip
import io as _io
import os as _os
import shutil as _shutil
import tempfile as _tempfile

_realopen = _builtins.open

from trees import (grammar, grammarinput, grammaroutput, misc, transform, transitionoutput,
                   transitions, treeanalysis, treeinput, treeoutput)


class _Files(dict):
    """name -> bytes.  The in-memory view is authoritative for everything that goes through the stubbed open();
    it is backed by a per-process scratch directory (the current directory while a path runs), so that code which
    reaches the file system through another API than the stubbed ones still finds its inputs and leaves its outputs
    where the harness looks for them: writes go through to the real file, reads fall back to it."""

    def __setitem__(self, name, data):
        dict.__setitem__(self, name, data)
        try:
            d = _os.path.dirname(name)
            if d and not _os.path.isabs(name):
                _os.makedirs(d, exist_ok=True)
            if not _os.path.isabs(name):
                with _realopen(name, "wb") as f:
                    f.write(data)
        except OSError:
            pass

    def __contains__(self, name):
        return dict.__contains__(self, name) or (isinstance(name, str) and _os.path.isfile(name))

    def __getitem__(self, name):
        if dict.__contains__(self, name):
            return dict.__getitem__(self, name)
        if isinstance(name, str) and _os.path.isfile(name):
            with _realopen(name, "rb") as f:
                return f.read()
        raise KeyError(name)

    def names(self):
        out = set(dict.keys(self))
        for root, _dirs, fs in _os.walk("."):
            if root.startswith("./tmp"):
                continue
            for f in fs:
                out.add(_os.path.normpath(_os.path.join(root, f)))
        return sorted(out)

    def __iter__(self):
        return iter(self.names())


class MemFS(object):
    files = _Files()
    dirs = set()
    tmp = [0]
    scratch = [None]

    @classmethod
    def reset(cls):
        if cls.scratch[0] is None:
            cls.scratch[0] = _tempfile.mkdtemp(prefix="verif-fs-")
            _atexit.register(_shutil.rmtree, cls.scratch[0], True)
        _os.chdir(cls.scratch[0])
        for entry in _os.listdir("."):
            p = _os.path.join(".", entry)
            if _os.path.isdir(p):
                _shutil.rmtree(p, True)
            else:
                _os.unlink(p)
        _os.makedirs("tmp", exist_ok=True)
        _tempfile.tempdir = _os.path.abspath("tmp")     # temporary files of the code under test land in the scratch dir
        cls.files = _Files()
        cls.dirs = set()
        cls.tmp[0] = 0


class _Writer(object):
    def __init__(self, name, enc, binary):
        self.name, self.enc, self.binary = name, enc, binary
        if not binary:
            self.encoding = enc or "utf-8"      # like io.TextIOWrapper
        self.buf = []
        self.closed = False
        MemFS.files[name] = b""

    def write(self, s):
        self.buf.append(s)
        return len(s)

    def flush(self):
        self._store()

    def _store(self):
        if self.binary:
            MemFS.files[self.name] = b"".join(self.buf)
        else:
            MemFS.files[self.name] = "".join(self.buf).encode(self.enc or "utf-8")

    def close(self):
        if not self.closed:
            self._store()
            self.closed = True

    def __enter__(self):
        return self

    def __exit__(self, *a):
        self.close()
        return False


class _Reader(object):
    def __init__(self, text):
        self.text = text
        self.pos = 0

    def read(self, n=-1):
        if n is None or n < 0:
            c = self.text[self.pos:]
            self.pos = len(self.text)
            return c
        c = self.text[self.pos:self.pos + n]
        self.pos += n
        return c

    def readline(self):
        i = self.text.find("\n", self.pos)
        if i < 0:
            return self.read()
        c = self.text[self.pos:i + 1]
        self.pos = i + 1
        return c

    def __iter__(self):
        while True:
            line = self.readline()
            if line == "":
                return
            yield line

    def close(self):
        pass

    def __enter__(self):
        return self

    def __exit__(self, *a):
        return False


def _disk_reader(name, encoding):
    """Text reader for a file that exists only on disk (the unpacked copy that misc.gunzip leaves in the temporary
    directory): CPython's own FileIO -> BufferedReader -> TextIOWrapper stack, with read-ahead of a few bytes
    instead of 8 KiB.  The contract assumed is the one the I/O layer gives: a reader may fetch the bytes of its file
    in pieces of any size, at the time they are asked for -- so a file that is rewritten under the same name while a
    lazily consumed reader is still open on it shows through, as it would for a real treebank of more than one
    buffer."""
    raw = _io.FileIO(name, "r")
    t = _io.TextIOWrapper(_io.BufferedReader(raw, buffer_size=8), encoding=encoding or "utf-8")
    t._CHUNK_SIZE = 8
    return t


def mem_open(name, mode="r", encoding=None, **k):
    name = str(name)
    if "w" in mode:
        return _Writer(name, encoding, "b" in mode)
    if name not in MemFS.files:
        raise FileNotFoundError(name)
    if "b" not in mode and not dict.__contains__(MemFS.files, name):
        return _disk_reader(name, encoding)
    data = MemFS.files[name]
    if "b" in mode:
        return _io.BytesIO(data)
    return _Reader(data.decode(encoding or "utf-8"))


class ShimIO(object):
    StringIO = _io.StringIO
    BytesIO = _io.BytesIO
    open = staticmethod(mem_open)


class _ShimPath(object):
    @staticmethod
    def isdir(p):
        return p in MemFS.dirs or _os.path.isdir(p)

    @staticmethod
    def join(*a):
        return "/".join(a)

    @staticmethod
    def exists(p):
        return p in MemFS.files or p in MemFS.dirs


class ShimOS(object):
    path = _ShimPath

    @staticmethod
    def listdir(p):
        return sorted(n[len(p) + 1:] for n in MemFS.files.names() if n.startswith(p + "/") and "/" not in n[len(p) + 1:])


class _GzReader(object):
    def __init__(self, data):
        self.f = data

    def read(self, n=-1):
        return self.f.read(n)

    def __iter__(self):
        return iter(self.f)

    def __enter__(self):
        return self

    def __exit__(self, *a):
        return False


class ShimGzip(object):
    @staticmethod
    def open(filename, mode="rb", compresslevel=9, encoding=None, errors=None, newline=None):
        data = _gzip.decompress(MemFS.files[str(filename)])
        if "t" in mode:
            return _GzReader(_Reader(data.decode(encoding or "utf-8", errors or "strict")))
        return _GzReader(_io.BytesIO(data))


class _Tmp(_Writer):
    pass


class ShimTempfile(object):
    @staticmethod
    def NamedTemporaryFile(mode="w+b", buffering=-1, encoding=None, newline=None, suffix=None, prefix=None,
                           dir=None, delete=True, **k):
        MemFS.tmp[0] += 1
        return _Tmp("/tmp/memtmp%d" % MemFS.tmp[0], encoding, "b" in mode)


class Sink(object):
    def __init__(self):
        self.parts = []

    def write(self, s):
        self.parts.append(s)
        return len(s)

    def flush(self):
        pass

    def text(self):
        return "".join(str(p) for p in self.parts)


class ShimSys(object):
    def __init__(self):
        self.stdout = Sink()
        self.stderr = Sink()
        self.argv = ["treetools"]

    def exit(self, code=None):
        raise SystemExit(code)


SYS = ShimSys()


def shim_print(*args, sep=" ", end="\n", file=None, flush=False):
    (file if file is not None else SYS.stdout).write(sep.join(str(a) for a in args) + end)


_MODS = (treeinput, treeoutput, transform, grammar, grammarinput, grammaroutput, transitions, transitionoutput,
         treeanalysis)


def install():
    """(Re)install all stubs and reset per-path state.  Called at the start of every harness execution:
    CrossHair re-executes paths in one process, so state must not leak from one path to the next."""
    MemFS.reset()
    SYS.stdout = Sink()
    SYS.stderr = Sink()
    SYS.argv = ["treetools"]
    for mod in _MODS:
        mod.print = shim_print
        if hasattr(mod, "sys"):
            mod.sys = SYS
        if hasattr(mod, "io"):
            mod.io = ShimIO
    transform.os = ShimOS
    grammaroutput.open = mem_open
    # misc.gunzip runs for real (gzip, tempfile) on the scratch directory
    reset_function_state()


def reset_function_state():
    for fn in (transform.insert_terminals, transform.substitute_terminals):
        for attr in ("fn", "terminals"):
            if hasattr(fn, attr):
                delattr(fn, attr)


def put(name, text, encoding="utf-8"):
    MemFS.files[name] = text.encode(encoding)


def mkdir(name):
    MemFS.dirs.add(name)
    _os.makedirs(name, exist_ok=True)


def put_gz(name, text, encoding="utf-8"):
    MemFS.files[name] = _gzip.compress(text.encode(encoding))


def get(name, encoding="utf-8"):
    return MemFS.files[name].decode(encoding)
