"""Harness: symbolic inputs, stubs, independent oracles, one module of conditions per property."""
