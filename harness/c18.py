"""C18 Processing is sentence-local, deterministic and history-independent."""
import argparse
import json
import os
import re
import subprocess
import sys as _realsys
from vlib.cond import Cond, P
from trees import transform, treeinput, treeanalysis, grammar, grammaroutput, transitions
from harness import stubs, c01
from harness.symtree import e1_params, e1_get, e1_wf_expr, wf
from harness.formats import enc_export, enc_brackets, enc_tiger, spec_e1, decode_file

FUNCS = ["transform.run", "treeanalysis.run", "grammar.run", "transitions.run", "transform.insert_terminals",
         "transform.substitute_terminals", "transform.binarize", "transform.mark_heads_by_rules", "treeinput.*",
         "treeoutput.*", "grammaroutput.rcg/pmcfg"]
ASSUMPTIONS = [
    "commands are executed in-process through their run(args) entry points on the in-memory file system; inside one "
    "history nothing is reset between calls (the stubs are reset only at the start of a path)",
    "fresh-process baseline: every probe command is executed in a new plain Python process under PYTHONHASHSEED 0, 1, 2 and 3; "
    "all must agree (files that represent sets are compared as sorted lines) and are "
    "the values a call after any history must reproduce",
    "op alphabet of 21 commands over four fixed treebanks (export, brackets, TIGER-XML, PTB-style brackets with traces) and two terminal files with "
    "different names and contents",
]
OUTSIDE = ["histories longer than the bound", "more than two readers alive at once; interleaving of anything but readers", "terminal files with the same name and different content",
           "hash seeds other than the two used for the baseline"]

T1 = "1 1 NEW1 XX\n2 2 NEW2 YY\n"
T2 = "1 2 OTHER ZZ\n2 1 FIRST AA\n"
SC = c01.S2C
SD = c01.S2
S3 = ("N", "VROOT", "--", (("N", "S", "--", (("N", "NP-SB", "SB", (("T", "Der", "ART", "NK", "der", "m", 1), ("T", "Mann", "NN", "NK", "Mann", "m", 2),
                                                                  ("T", "Peter", "NE", "NK", "Peter", "m", 3))),
                                            ("T", "lacht", "VVFIN", "HD", "lachen", "m", 4), ("T", ",", "$,", "--", ",", "m", 5),
                                            ("N", "VP", "OC", (("T", "der", "PRELS", "SB", "der", "m", 6),
                                                               ("T", "gehen", "VVINF", "HD", "gehen", "m", 7),
                                                               ("T", "wollen", "VVPP", "HD", "wollen", "m", 8))))),
                           ("T", ".", "$.", "--", ".", "m", 9)))


def _t(w, p, k):
    return ("T", w, p, "--", "--", "--", k)


# three filler/trace pairs (co-indices 1, 2, 3) whose paths share nodes, and a gap index
S4 = ("N", "VROOT", "--", (("N", "SBARQ", "--", (
    ("N", "WHNP-1", "--", (_t("who", "WP", 1),)),
    ("N", "WHADVP-3", "--", (_t("when", "WRB", 2),)),
    ("N", "S", "--", (
        ("N", "NP-SBJ-2", "--", (_t("he", "PRP", 3),)),
        ("N", "VP", "--", (
            _t("said", "VBD", 4),
            ("N", "S", "--", (
                ("N", "NP-SBJ", "--", (_t("*-2", "-NONE-", 5),)),
                ("N", "VP", "--", (
                    _t("see", "VB", 6),
                    ("N", "NP=2", "--", (_t("*T*-1", "-NONE-", 7),)),
                    ("N", "ADVP", "--", (_t("*T*-3", "-NONE-", 8),)))))))))))),))


def fixtures():
    stubs.put("f4.mrg", enc_brackets([(None, S4), (None, S4)], fw=None))
    stubs.put("f1.export", enc_export([(1, SD), (2, SC), (3, S3)]))
    stubs.put("f2.mrg", enc_brackets([(None, SC), (None, S3)], fw=None))
    stubs.MemFS.files["f3.xml"] = enc_tiger([(5, SD), (6, S3)])
    stubs.put("t1.txt", T1)
    stubs.put("t2.txt", T2)


def _targs(src, dest, sf, df, trans=(), params=(), src_opts=("quiet",), dest_opts=()):
    return argparse.Namespace(src=src, dest=dest, counting=100, trans=list(trans), params=list(params), src_format=sf,
                              src_enc="utf-8", src_opts=list(src_opts), dest_format=df, dest_enc="utf-8",
                              dest_opts=list(dest_opts), split="")


def _sortedlines(*names):
    out = []
    for n in names:
        out.append("\n".join(sorted(stubs.get(n).split("\n"))))
    return "\n--\n".join(out)


def _gargs(src, dest, sf, gt, markov, df):
    return argparse.Namespace(src=src, dest=dest, gramtype=gt, markov=markov, src_format=sf, src_enc="utf-8", src_opts=["quiet"],
                              dest_format=df, dest_enc="utf-8", dest_opts=[], verbose=False)


def _noexit(fn, args):
    try:
        fn(args)
    except SystemExit:
        pass


def op(i, tag):
    """execute command i; output files are named after `tag`; returns the observable result as a string"""
    d = "o%s" % tag
    if i == 0:
        transform.run(_targs("f2.mrg", d, "brackets", "export"))
        return stubs.get(d)
    if i == 1:
        transform.run(_targs("f1.export", d, "export", "discobrackets"))
        return stubs.get(d)
    if i in (2, 3):
        transform.run(_targs("f1.export", d, "export", "export", ["negra_mark_heads", "binarize"],
                             ["bare_bin_labels"] if i == 3 else [], dest_opts=["mark_heads_marking"]))
        return stubs.get(d)
    if i in (4, 5):
        transform.run(_targs("f1.export", d, "export", "export", ["insert_terminals"],
                             ["terminalfile:t%d.txt" % (i - 3), "quiet"]))
        return stubs.get(d)
    if i in (6, 7):
        transform.run(_targs("f1.export", d, "export", "export", ["substitute_terminals"],
                             ["terminalfile:t%d.txt" % (i - 5), "quiet"]))
        return stubs.get(d)
    if i == 8:
        _noexit(grammar.run, _gargs("f1.export", d, "export", "leftright", ["v:1", "h:1"], "rcg"))
        return _sortedlines(d + ".rcg", d + ".lex")
    if i == 9:
        _noexit(grammar.run, _gargs("f2.mrg", d, "brackets", "optimal", None, "pmcfg"))
        return stubs.get(d + ".pmcfg") + "\n--\n" + _sortedlines(d + ".lex")
    if i == 10:
        n0 = len(stubs.SYS.stdout.parts)
        treeanalysis.run(argparse.Namespace(src="f1.export", task="GapDegree", src_format="export", src_enc="utf-8",
                                            src_opts=["quiet"]))
        return "".join(str(p) for p in stubs.SYS.stdout.parts[n0:])
    if i == 11:
        _noexit(transitions.run, argparse.Namespace(src="f1.export", dest=d, transtype="gap", transform=["negra_mark_heads", "binarize"],
                                                    transformparams=[], src_format="export", src_enc="utf-8", src_opts=["quiet"],
                                                    dest_format="plain", dest_enc="utf-8", dest_opts=[], verbose=False))
        return stubs.get(d)
    if i == 12:
        transform.run(_targs("f3.xml", d, "tigerxml", "export", src_opts=["quiet", "gf_split"]))
        return stubs.get(d)
    if i == 13:
        transform.run(_targs("f1.export", d, "export", "brackets", ["mark_heads_by_rules", "boyd_split", "raising"],
                             ["mark_heads_preset:negra"], dest_opts=["mark_heads_marking"]))
        return stubs.get(d)
    if i == 14:
        transform.run(_targs("f2.mrg", d, "brackets", "tigerxml"))
        return stubs.get(d)
    if i == 15:
        transform.run(_targs("f1.export", d, "export", "export", ["root_attach", "punctuation_verylow", "punctuation_symetrify"],
                             ["relc:PRELS"], dest_opts=["gf"]))
        return stubs.get(d)
    if i in (16, 17):
        transform.run(_targs("f4.mrg", d, "brackets", "brackets", ["ptb_delete_traces"],
                             ["keepall", "keepcoindex"] if i == 17 else ["keepall", "slash"]))
        return stubs.get(d)
    if i == 18:
        a = _targs("f1.export", d, "export", "export")
        a.split = "1#_rest"
        transform.run(a)
        return stubs.get(d + ".0") + "\n--\n" + stubs.get(d + ".1")
    if i in (19, 20):
        _noexit(transitions.run, argparse.Namespace(src="f2.mrg", dest=d, transtype=["inorder", "topdown"][i - 19],
                                                    transform=["negra_mark_heads", "binarize"],
                                                    transformparams=[], src_format="brackets", src_enc="utf-8", src_opts=["quiet"],
                                                    dest_format="plain", dest_enc="utf-8", dest_opts=[], verbose=False))
        return stubs.get(d)
    raise ValueError("unknown op %r" % i)


NOPS = 21
SEEDS = ("0", "1", "2", "3")
_FRESH = {}


def prepare(bdir, env):
    """runner hook: compute the fresh-process baseline once per run and hand it to the workers"""
    path = os.path.join(bdir, "baseline.json")
    json.dump(fresh(), open(path, "w"))
    env["VERIF_C18_BASELINE"] = path


def fresh():
    """baseline: every command in a fresh plain Python process, under two hash seeds"""
    if "v" not in _FRESH:
        cache = os.environ.get("VERIF_C18_BASELINE")
        if cache and os.path.exists(cache):
            _FRESH["v"] = json.load(open(cache))
            return _FRESH["v"]
        res = []
        for seed in SEEDS:
            root = os.path.dirname(os.path.dirname(os.path.abspath(__file__)))
            env = dict(os.environ, PYTHONHASHSEED=seed, PYTHONWARNINGS="ignore",
                       PYTHONPATH=root + os.pathsep + os.environ.get("VERIF_REPO", "/repo"))
            p = subprocess.run([_realsys.executable, "-m", "harness.c18"], env=env, capture_output=True, text=True, timeout=600)
            if p.returncode != 0:
                raise RuntimeError("baseline process failed: " + p.stderr[-2000:])
            res.append(json.loads(p.stdout.strip().split("\n")[-1]))
        _FRESH["v"] = res
    return _FRESH["v"]


def _baseline_main():
    """child process: each command alone, in its own fresh interpreter state (one process per command)"""
    out = {}
    if len(_realsys.argv) > 1:
        i = int(_realsys.argv[1])
        stubs.install()
        fixtures()
        print(json.dumps(op(i, "b")))
        return
    for i in range(NOPS):
        p = subprocess.run([_realsys.executable, "-m", "harness.c18", str(i)], capture_output=True, text=True, timeout=300)
        if p.returncode != 0:
            raise RuntimeError("baseline command %d failed: %s" % (i, p.stderr[-2000:]))
        out[str(i)] = json.loads(p.stdout.strip().split("\n")[-1])
    print(json.dumps(out))


STATEFUL = [2, 3, 4, 5, 6, 7, 16, 17]     # commands whose implementation keeps or could keep state between calls


def history(k, p, sub=False, psub=False, **kw):
    """a history of k commands, then probe command p: result equals the fresh-process value
    (sub: history commands are drawn from the STATEFUL sub-alphabet)"""
    if psub:
        p = STATEFUL[p]
    base = fresh()
    for b in base[1:]:
        if b[str(p)] != base[0][str(p)]:
            return "command %d gives different results in fresh processes with different hash seeds" % p
    stubs.install()
    fixtures()
    hs = [kw["h%d" % i] for i in range(1, k + 1)]
    if sub:
        hs = [STATEFUL[h] for h in hs]
    if psub and sub and k >= 2 and kw.get("_quick"):
        pass
    for j, h in enumerate(hs):
        try:
            op(h, "h%d" % j)
        except Exception as e:      # noqa
            return "command %d failed after history %r: %s: %s" % (h, hs[:j], type(e).__name__, e)
    try:
        got = op(p, "p")
    except Exception as e:          # noqa
        return "command %d failed after history %r: %s: %s" % (p, hs, type(e).__name__, e)
    if got != base[0][str(p)]:
        return "command %d after history %r gives %r, in a fresh process %r" % (p, hs, got[:300], base[0][str(p)][:300])
    return ""


# ----------------------------------------------------------------------------- additivity
AOPS = ["export", "discobrackets", "tigerxml", "terminals", "pipeline", "binarize", "gapdegree", "grammar", "markov", "transitions",
        "inorder", "topdown", "eager-topnode", "eager-binarize", "eager-split"]
# eager-*: all trees are read into a list first (library use), then transformed and written one after the other


def _run_a(a, sents, tag):
    """result of additive op a on a corpus, in a form that must be additive"""
    stubs.install()
    stubs.put("c.export", enc_export(sents))
    d = "a" + tag
    def dec(fmt):
        items, prob = decode_file(fmt, stubs.get(d))
        if prob:
            raise ValueError("%s output does not decode: %s" % (fmt, prob))
        return ("text", items)
    if a in (0, 1, 2, 3):
        transform.run(_targs("c.export", d, "export", AOPS[a]))
        return dec(AOPS[a])
    if a == 4:
        transform.run(_targs("c.export", d, "export", "export", ["root_attach", "negra_mark_heads", "boyd_split", "raising"]))
        return dec("export")
    if a == 5:
        transform.run(_targs("c.export", d, "export", "discobrackets", ["negra_mark_heads", "binarize"], dest_opts=["mark_heads_marking"]))
        return dec("discobrackets")
    if a == 6:
        treeanalysis.run(argparse.Namespace(src="c.export", task="GapDegree", src_format="export", src_enc="utf-8", src_opts=["quiet"]))
        text = stubs.SYS.stdout.text()
        cnt = {}
        mo = re.search(r"(\d+) trees, (\d+) nodes", text)
        cnt["trees"], cnt["nodes"] = int(mo.group(1)), int(mo.group(2))
        for mo in re.finditer(r"Gap degree\s+(\d+):\s+(\d+) (trees|nodes)", text):
            cnt[mo.group(3) + mo.group(1)] = int(mo.group(2))
        return ("counts", cnt)
    if a in (7, 8):
        g, lex = {}, {}
        for tree in treeinput.export("c.export", "utf-8", quiet=True):
            grammar.extract(tree, g, lex)
        if a == 8:
            g = grammar.binarize(g, reordering=grammar.reordering_none, markov_opts={'v': 1, 'h': 1})
        cnt = {}
        for f in g:
            for l in g[f]:
                for v in g[f][l]:
                    cnt[repr((f, l, v))] = g[f][l][v]
        for w in lex:
            for t in lex[w]:
                cnt[repr(("lex", w, t))] = lex[w][t]
        return ("counts", cnt)
    if a == 9:
        _noexit(transitions.run, argparse.Namespace(src="c.export", dest=d, transtype="gap", transform=["negra_mark_heads", "binarize"],
                                                    transformparams=[], src_format="export", src_enc="utf-8", src_opts=["quiet"],
                                                    dest_format="plain", dest_enc="utf-8", dest_opts=[], verbose=False))
        return ("text", stubs.get(d))
    if a in (10, 11):
        _noexit(transitions.run, argparse.Namespace(src="c.export", dest=d, transtype=AOPS[a], transform=["negra_mark_heads", "binarize"],
                                                    transformparams=[], src_format="export", src_enc="utf-8", src_opts=["quiet"],
                                                    dest_format="plain", dest_enc="utf-8", dest_opts=[], verbose=False))
        return ("text", stubs.get(d))
    if a in (12, 13, 14):
        from trees import treeoutput
        tl = list(treeinput.export("c.export", "utf-8", quiet=True))
        sink = stubs.Sink()
        trans, fmt, opts = [(["add_topnode"], "export", {}),
                            (["negra_mark_heads", "binarize"], "discobrackets", {"mark_heads_marking": True}),
                            (["negra_mark_heads", "boyd_split"], "export", {"boyd_split_marking": True})][a - 12]
        for t in tl:
            for name in trans:
                t = getattr(transform, name)(t)
            getattr(treeoutput, fmt)(t, sink, **opts)
        items, prob = decode_file(fmt, sink.text())
        if prob:
            raise ValueError("%s output does not decode: %s" % (fmt, prob))
        return ("text", items)
    raise ValueError(a)


def additive(m, n, a, swap, **kw):
    """result(A + B) = result(A) ++ result(B)  (sum for grammars, lexicons and statistics)"""
    ip, lp = e1_get(kw, m, n)
    A = (1, spec_e1(m, n, ip, lp, labels=["VROOT", "NP", "S"][:m], words=["a", ",", "b", "``"][:n], pos=["P1", "$,", "P1", "P3"][:n],
                    edges=["--", "HD", "NK", "HD", "NK", "--", "SB"][:m + n]))
    B = (2, SD)
    if a in (10, 11):
        # in-order and top-down oracles are defined for continuous trees
        from harness.formats import spec_gapdeg
        if spec_gapdeg(A[1]) > 0:
            return "~"
        B = (2, SC)
    first, second = (B, A) if swap else (A, B)
    try:
        kind, r1 = _run_a(a, [first], "1")
        _, r2 = _run_a(a, [second], "2")
        _, r12 = _run_a(a, [first, second], "12")
    except Exception as e:      # noqa
        return "%s failed: %s: %s" % (AOPS[a], type(e).__name__, e)
    if kind == "text":
        if r12 != r1 + r2:
            return "%s: result for the concatenated treebank %r is not the concatenation %r + %r" % (AOPS[a], r12, r1, r2)
    else:
        tot = dict(r1)
        for k2, v in r2.items():
            tot[k2] = tot.get(k2, 0) + v
        if r12 != tot:
            return "%s: counts for the concatenated treebank %r are not the sum %r" % (AOPS[a], r12, tot)
    return ""


# ----------------------------------------------------------------------------- interleaved readers
IFMT = ["export", "brackets", "discobrackets", "tigerxml"]
IEXT = {"export": "export", "brackets": "mrg", "discobrackets": "dbr", "tigerxml": "xml"}


SC2 = ("N", "VROOT", "--", (("T", "u", "Q4", "--", "lu", "m4", 1), ("N", "VP", "HD", (("T", "v", "Q5", "HD", "lv", "m5", 2),))))


def _ifile(fmt, cont):
    """three sentences (cont False) or two (cont True), continuous for the bracket formats"""
    sents = [(4, SC), (5, SC2)] if cont else [(1, SC2), (2, SC), (3, SC2 if fmt == "brackets" else SD)]
    if fmt == "export":
        return enc_export(sents).encode("utf-8")
    if fmt == "tigerxml":
        return enc_tiger(sents)
    return enc_brackets([(None, sp) for (_i, sp) in sents], fw=None, disco=(fmt == "discobrackets")).encode("utf-8")


def _obs(tree):
    from harness.symtree import wellformed
    from harness.formats import spec_of_tree
    w = wellformed(tree)
    return ("malformed: " + w) if w else (tree.data.get("sid"), spec_of_tree(tree))


def interleave(fa, fb, gza, gzb, same, s1, s2, s3, s4, **kw):
    """two lazily consumed readers alive at once, advanced in an arbitrary order: each yields what it yields alone
    (files in different directories, optionally with the same base name, optionally gzip-compressed)"""
    import gzip
    stubs.install()
    stubs.mkdir("da")
    stubs.mkdir("db")
    names = []
    for (d, f, gz, cont) in (("da", fa, gza, False), ("db", fb, gzb, True)):
        fmt = IFMT[f]
        name = "%s/%s.%s" % (d, "x" if same else "x" + d, IEXT[IFMT[fa]] if same else IEXT[fmt])
        data = _ifile(fmt, cont)
        if gz:
            name, data = name + ".gz", gzip.compress(data)
        stubs.MemFS.files[name] = data
        names.append((fmt, name))
    alone = []
    for (fmt, name) in names:
        try:
            alone.append([_obs(t) for t in getattr(treeinput, fmt)(name, "utf-8", quiet=True)])
        except Exception as e:      # noqa
            return "%s reader failed on %s: %s: %s" % (fmt, name, type(e).__name__, e)
    if [len(a) for a in alone] != [3, 2]:
        return "readers alone yield %r sentences, the files have [3, 2]" % ([len(a) for a in alone],)
    gens = [getattr(treeinput, fmt)(name, "utf-8", quiet=True) for (fmt, name) in names]
    got = [[], []]
    live = [True, True]
    sched = [s1, s2, s3, s4]
    step = 0
    while live[0] or live[1]:
        w = 1 if (sched[step] if step < len(sched) else False) else 0
        step += 1
        if not live[w]:
            w = 1 - w
        try:
            got[w].append(_obs(next(gens[w])))
        except StopIteration:
            live[w] = False
        except Exception as e:      # noqa
            return "%s reader on %s, interleaved with the %s reader on %s, failed: %s: %s" % (
                names[w][0], names[w][1], names[1 - w][0], names[1 - w][1], type(e).__name__, e)
        if step > 12:
            return "readers do not terminate"
    for w in (0, 1):
        if got[w] != alone[w]:
            return "%s reader on %s yields %r when interleaved with the %s reader on %s, and %r alone" % (
                names[w][0], names[w][1], got[w], names[1 - w][0], names[1 - w][1], alone[w])
    return ""


def reread(f, gz, f2, **kw):
    """the same file name read again after its content was replaced (by a corpus in the same or another format):
    the second pass yields the new content"""
    import gzip
    stubs.install()
    stubs.mkdir("da")
    fmt1, fmt2 = IFMT[f], IFMT[f2]
    name = "da/x." + IEXT[fmt1] + (".gz" if gz else "")
    res = []
    for (fmt, cont) in ((fmt1, False), (fmt2, True)):
        data = _ifile(fmt, cont)
        stubs.MemFS.files[name] = gzip.compress(data) if gz else data
        try:
            res.append([_obs(t) for t in getattr(treeinput, fmt)(name, "utf-8", quiet=True)])
        except Exception as e:      # noqa
            return "%s reader failed on %s (pass %d): %s: %s" % (fmt, name, len(res) + 1, type(e).__name__, e)
    stubs.install()
    stubs.mkdir("db")
    name2 = "db/y." + IEXT[fmt2] + (".gz" if gz else "")
    data = _ifile(fmt2, True)
    stubs.MemFS.files[name2] = gzip.compress(data) if gz else data
    alone = [_obs(t) for t in getattr(treeinput, fmt2)(name2, "utf-8", quiet=True)]
    if len(res[0]) != 3 or len(alone) != 2:
        return "readers yield %d and %d sentences, the files have 3 and 2" % (len(res[0]), len(alone))
    if res[1] != alone:
        return "%s reader on %s after the file was replaced yields %r, the new content alone %r" % (fmt2, name, res[1], alone)
    return ""


def conds(tier):
    q = tier == "quick"
    cs = []
    for (k, sub) in ([(1, False), (2, True)] if q else [(1, False), (2, True), (3, True)]):
        nh = 6 if sub else NOPS
        psub = sub and (q or k >= 3)
        cs.append(Cond("history-k%d%s" % (k, "s" if sub else ""), "harness.c18:history",
                       [P("h%d" % i, "int", 0, nh) for i in range(1, k + 1)] + [P("p", "int", 0, len(STATEFUL) if psub else NOPS)],
                       fixed={"k": k, "sub": sub, "psub": psub},
                       shard=["p"] + (["h1"] if k >= 2 and not q else []), timeout=900 if q else 3000, functions=FUNCS,
                       note="all histories of %d commands from %s, every probe command" % (
                           k, "the %d stateful commands" % nh if sub else "the alphabet of %d" % NOPS)))
    for (m, n) in ([(2, 2), (2, 3)] if q else [(2, 2), (2, 3), (3, 3), (3, 4)]):
        cs.append(Cond("additive-m%d-n%d" % (m, n), "harness.c18:additive", e1_params(m, n) + [P("a", "int", 0, len(AOPS)), P("swap", "bool")],
                       fixed={"m": m, "n": n}, pre=[e1_wf_expr(m, n)] + (["a < 12"] if (q and m * n > 4) else []), shard=["a"] + (["swap"] if m * n >= 9 else []),
                       skip=(lambda sf: sf["a"] >= 12) if (q and m * n > 4) else None,
                       timeout=600 if q else 3000, functions=FUNCS))
    ipars = [P("fa", "int", 0, 4), P("fb", "int", 0, 4), P("gza", "bool"), P("gzb", "bool"), P("same", "bool")] + \
            [P("s%d" % i, "bool") for i in range(1, 5)]
    cs.append(Cond("interleave", "harness.c18:interleave", ipars,
                   pre=["gza == gzb and s4 == s1 and s3 == s2"] if q else [], shard=["fa", "fb"], timeout=600 if q else 3000,
                   functions=["treeinput.export", "treeinput.brackets", "treeinput.discobrackets", "treeinput.tigerxml", "misc.gunzip"],
                   note="two readers (all format pairs, plain or gzip sources in two directories, same or different base name), "
                        "every order of advancing them: 16 schedules of the first four steps"))
    cs.append(Cond("reread", "harness.c18:reread", [P("f", "int", 0, 4), P("gz", "bool"), P("f2", "int", 0, 4)],
                   shard=["gz"], timeout=600, functions=["treeinput.*", "misc.gunzip"],
                   note="a file name read, replaced by another corpus (any format), read again"))
    return cs


if __name__ == "__main__":
    _baseline_main()
