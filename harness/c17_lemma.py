"""C17, Engine B: parse_split_specification against the documented rule, for every value of the numerals and of the
treebank size (unbounded integers), by symbolic interpretation of the function's current source (vlib/pysym.py)."""
import itertools
import json
import subprocess
import sys
import tempfile
import time

import z3

from trees import treeoutput
from vlib import pysym

KINDS = ["#", "%", "rest", "junk", "neg", "empty", "nosuffix"]


def _patterns(maxparts):
    for p in range(1, maxparts + 1):
        for ks in itertools.product(range(len(KINDS)), repeat=p):
            # malformed kinds only in one position at a time and only in patterns of up to two parts (they end the path)
            bad = [k for k in ks if k >= 3]
            if len(bad) > 1 or (bad and p > 2):
                continue
            yield [KINDS[k] for k in ks]


def _mk(it, pat):
    parts, nums = [], []
    for i, k in enumerate(pat):
        n = it.num("n%d" % i)
        nums.append(n)
        if k in ("#", "%"):
            parts.append(pysym.Part(pysym.Numeral(n), k))
        elif k == "rest":
            parts.append("rest")
        elif k == "junk":
            parts.append(pysym.Part(pysym.Numeral(n, junk=True), "#"))
        elif k == "neg":
            parts.append(pysym.Part(pysym.Numeral(n, neg=True), "#"))
        elif k == "empty":
            parts.append("")
        else:
            parts.append(pysym.Part(pysym.Numeral(n, junk=True), "5"))     # e.g. "15": no suffix
    return pysym.Spec(parts), nums


def _reference(it, pat, nums, size):
    """(reject, [expected sizes]) as z3 terms"""
    if any(k not in ("#", "%", "rest") for k in pat) or pat.count("rest") > 1:
        return z3.BoolVal(True), None
    c100 = it.const(100)
    sizes = []
    for k, n in zip(pat, nums):
        if k == "#":
            sizes.append(n)
        elif k == "%":
            sizes.append(z3.UDiv(n * size, c100) if it.fp else (n * size) / c100)
        else:
            sizes.append(it.const(0))
    tot = sizes[0]
    for s in sizes[1:]:
        tot = tot + s
    gt = z3.UGT(tot, size) if it.fp else tot > size
    lt = z3.ULT(tot, size) if it.fp else tot < size
    diff = size - tot
    exp = []
    for i, s in enumerate(sizes):
        if "rest" in pat:
            exp.append(z3.If(lt, diff, it.const(0)) if pat[i] == "rest" else s)
        else:
            ge = (lambda a, b: z3.UGE(a, b)) if it.fp else (lambda a, b: a >= b)
            g = (lambda a, b: z3.UGT(a, b)) if it.fp else (lambda a, b: a > b)
            conj = [g(s, sizes[j]) for j in range(i)] + [ge(s, sizes[j]) for j in range(i + 1, len(sizes))]
            firstmax = z3.And(conj) if conj else z3.BoolVal(True)
            exp.append(s + z3.If(z3.And(lt, firstmax), diff, it.const(0)))
    return gt, exp


def _solve(formulas, timeout_s, fp=False):
    """sat / unsat / unknown with z3 (short cap in floating-point mode), then the cvc5 binary on unknown"""
    s = z3.Solver()
    s.set("timeout", int((15 if fp else timeout_s) * 1000))
    s.add(*formulas)
    t0 = time.time()
    r = s.check()
    dt = time.time() - t0
    if r == z3.sat:
        return "sat", s.model(), dt, "z3"
    if r == z3.unsat:
        return "unsat", None, dt, "z3"
    # second opinion
    with tempfile.NamedTemporaryFile("w", suffix=".smt2", delete=False) as f:
        s2 = z3.Solver()            # a solver that has not run: to_smt2() of a used solver leaks internal symbols
        s2.add(*formulas)
        f.write("(set-option :produce-models true)\n(set-logic ALL)\n" + s2.to_smt2().replace("(check-sat)", "(check-sat)\n(get-model)"))
        path = f.name
    t0 = time.time()
    p = None
    try:
        p = subprocess.run(["cvc5", "--tlimit=%d" % int(timeout_s * 1000), path], capture_output=True, text=True, timeout=timeout_s + 30)
        out = p.stdout
    except subprocess.TimeoutExpired:
        out = ""
    dt += time.time() - t0
    import os
    os.unlink(path)
    first = out.strip().split("\n")[0] if out.strip() else ""
    if first == "unsat":
        return "unsat", None, dt, "cvc5"     # (the get-model that follows an unsat answer is an expected error)
    if first == "sat" and "(error" not in out:
        return "sat", out, dt, "cvc5"
    if "(error" in out or (p is not None and not out.strip()):
        return "unknown", None, dt, "cvc5-error: " + (out + (p.stderr if p is not None else ""))[:300]
    return "unknown", None, dt, "z3+cvc5"


def _model_values(model, names, fp):
    vals = {}
    if isinstance(model, str):
        import re
        for n in names:
            mo = re.search(r"\(define-fun %s \(\) \(_ BitVec \d+\) #([xb])([0-9a-f]+)\)" % n, model)
            if mo:
                vals[n] = int(mo.group(2), 16 if mo.group(1) == "x" else 2)
            else:
                mo = re.search(r"\(define-fun %s \(\) Int (\d+)\)" % n, model)
                vals[n] = int(mo.group(1)) if mo else 0
        return vals
    for n in names:
        v = model.eval(z3.BitVec(n, pysym.BVW) if fp else z3.Int(n), model_completion=True)
        vals[n] = v.as_long()
    return vals


def concrete_spec(pat, vals):
    out = []
    for i, k in enumerate(pat):
        n = vals.get("n%d" % i, 0)
        out.append({"#": "%d#" % n, "%": "%d%%" % n, "rest": "rest", "junk": "%dx#" % n, "neg": "-%d#" % (n + 1),
                    "empty": "", "nosuffix": "%d5" % n}[k])
    return "_".join(out)


def replay(spec, size):
    """plain-Python replay of a witness against the real function and the set-based reference of harness.c17"""
    from harness import c17
    parts = []
    for x in spec.split("_"):
        if x == "rest":
            parts.append(("rest", 0))
        elif x[-1:] in ("#", "%") and x[:-1].isdigit():
            parts.append((x[-1], int(x[:-1])))
        else:
            parts.append(("bad", 0))
    want = c17._ref(parts, size)
    try:
        got = treeoutput.parse_split_specification(spec, size)
    except ValueError:
        return "" if want is None else "specification %r for %d trees rejected, expected %r" % (spec, size, want)
    except Exception as e:      # noqa
        return "specification %r for %d trees: %s: %s" % (spec, size, type(e).__name__, e)
    if want is None:
        return "specification %r for %d trees accepted as %r, must be rejected" % (spec, size, got)
    if got != want:
        return "specification %r for %d trees gives %r, expected %r" % (spec, size, got, want)
    return ""


def validate_translation(it_factory):
    """Serval-style validation of the interpreter: concrete inputs (incl. the repository's own test input) through
    both the real function and the symbolic interpreter must agree."""
    cases = [("rest_20%_5000#", 10000), ("50%_50%", 7), ("3#_rest", 10), ("10%_10%_10%", 25), ("100%", 4), ("1#_1#", 1),
             ("rest_rest", 3), ("5#_x", 9), ("0#_rest", 0), ("33%_33%_33%", 100)]
    n = 0
    for spec, size in cases:
        try:
            real = ("return", treeoutput.parse_split_specification(spec, size))
        except ValueError:
            real = ("raise", "ValueError")
        except Exception as e:      # noqa
            real = ("raise", type(e).__name__)
        it = it_factory()
        parts = []
        for x in spec.split("_"):
            if x == "rest":
                parts.append("rest")
            elif x[:-1].isdigit():
                parts.append(pysym.Part(pysym.Numeral(it.const(int(x[:-1]))), x[-1]))
            else:
                parts.append(pysym.Part(pysym.Numeral(it.const(0), junk=True), x[-1]))
        outs = list(it.explore({"split_spec": pysym.Spec(parts), "size": it.const(size)}, []))
        if len(outs) != 1:
            return "interpreter forks on concrete input %r" % spec, n
        kind, val = outs[0][1]
        if kind == "return":
            val = [z3.simplify(it.lift(v)) for v in val]
            val = [v.as_long() if not z3.is_fp(v) else None for v in val]
        if (kind, val) != real:
            return "interpreter disagrees with the real function on %r, %d: %r vs %r" % (spec, size, (kind, val), real), n
        n += 1
    return "", n


def run(tier):
    """returns a result record for the runner"""
    t_start = time.time()
    src = pysym.function_source(treeoutput, "parse_split_specification")
    mk = lambda: pysym.Interp(src, "parse_split_specification")
    probe = mk()
    fp = probe.fp
    res = {"name": "lemma-split-arith", "functions": ["treeoutput.parse_split_specification (source re-read, %d lines)" % len(src.split("\n"))],
           "engine": "pysym + z3 %s%s" % (z3.get_version_string(), " / cvc5 binary" if fp else ""),
           "mode": "QF_BVFP (floating point found in the source): numerals <= 100 for %, <= 2^20 for #, size <= 2^20" if fp
           else "integers: numerals and size unbounded (z3 Int)",
           "paths": 0, "queries": 0, "solver_s": 0.0, "obligations": 0, "discharged": 0, "inconclusive": [], "samples": []}
    try:
        prob, nval = validate_translation(mk)
    except pysym.Unsupported as e:
        prob, nval = "unsupported construct: %s" % e, 0
    res["translation_validated_on"] = nval
    if prob:
        res["verdict"] = "inconclusive"
        res["inconclusive"].append(prob)
        return res
    maxparts = 3
    pats = list(_patterns(maxparts))
    if fp:
        pats = [["%"], ["%", "rest"], ["rest", "%"], ["%", "#"], ["%", "%"]] + [p for p in pats if "%" not in p and len(p) <= 2]
    cap = 150 if fp else (60 if tier == "quick" else 150)
    for pat in pats:
        it = mk()
        spec, nums = _mk(it, pat)
        size = it.num("size")
        if fp:
            assume = [z3.ULE(size, 1 << 20)] + [z3.ULE(n, 100 if k == "%" else (1 << 20)) for n, k in zip(nums, pat)]
        else:
            assume = [size >= 0] + [n >= 0 for n in nums]
        reject, exp = _reference(it, pat, nums, size)
        try:
            paths = list(it.explore({"split_spec": spec, "size": size}, assume))
        except pysym.Unsupported as e:
            res["inconclusive"].append("%s: %s" % ("_".join(pat), e))
            res["obligations"] += 1
            continue
        res["paths"] += len(paths)
        res["queries"] += it.queries
        res["solver_s"] += it.solver_s
        for pc, (kind, val) in paths:
            res["obligations"] += 1
            if kind == "raise" and val == "ValueError":
                bad = z3.Not(reject)
            elif kind == "raise":
                bad = z3.BoolVal(True)      # any other exception must be unreachable
            else:
                if exp is None or len(val) != len(exp):
                    bad = z3.BoolVal(True)
                else:
                    bad = z3.Or([reject] + [it.lift(v) != e for v, e in zip(val, exp)] +
                                [(it.lift(v) < 0) for v in val if not it.fp])
            r, model, dt, who = _solve(pc + [bad], cap, it.fp)
            res["queries"] += 1
            res["solver_s"] += dt
            if r == "unsat":
                res["discharged"] += 1
                if len(res["samples"]) < 4:
                    res["samples"].append({"pattern": "_".join(pat), "path_outcome": kind, "query": "unsat (%s, %.2fs)" % (who, dt)})
            elif r == "sat":
                vals = _model_values(model, ["n%d" % i for i in range(len(pat))] + ["size"], it.fp)
                res["cex"] = {"spec": concrete_spec(pat, vals), "size": vals["size"]}
                res["verdict"] = "counterexample"
                res["solver_s"] = round(res["solver_s"], 2)
                res["wall_s"] = round(time.time() - t_start, 1)
                return res
            else:
                res["inconclusive"].append("%s (%s path): solver unknown after %.0fs (%s)" % ("_".join(pat), kind, dt, who))
    res["verdict"] = "discharged" if res["discharged"] == res["obligations"] else "inconclusive"
    res["solver_s"] = round(res["solver_s"], 2)
    res["wall_s"] = round(time.time() - t_start, 1)
    return res


if __name__ == "__main__":
    print("@@LEMMA@@" + json.dumps(run(sys.argv[1] if len(sys.argv) > 1 else "quick"), default=str))
