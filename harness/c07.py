"""C07 Grammar binarization preserves every rule's yield function."""
from vlib.cond import Cond, P
from trees import grammar, grammaranalysis
from harness.symtree import e1_params, e1_get, e1_wf_expr, wf, build_e1

FUNCS = ["grammar.binarize", "grammar.binarize_rule", "grammar.linsub", "grammar.reordering_none",
         "grammar.reordering_optimal", "grammar.LabelGenerator.next", "grammar.MarkovLabelGenerator.next",
         "grammaranalysis.fan_out", "grammar.extract"]
ASSUMPTIONS = ["a rule is given by V variable occurrences (each an index of a right-hand-side element < R) and V-1 argument "
               "cuts, constrained to the canonical form of the property; right-hand-side symbols are pairwise different "
               "(B0..B3) unless 'same' makes them equal, left-hand side A",
               "yield composition is evaluated over block names Bi.j by a harness evaluator; with markovization, where "
               "binarization symbols are not unique, a chain is searched for among all rules of the binarized grammar"]
OUTSIDE = ["rules with more than V variables / rank above R", "markovization parameters above the bound"]


def mk_lin(seq, cuts):
    args = [[seq[0]]]
    for x, c in zip(seq[1:], cuts):
        if c:
            args.append([x])
        else:
            args[-1].append(x)
    cnt = {}
    lin = []
    for a in args:
        la = []
        for x in a:
            k = cnt.get(x, 0)
            la.append((x, k))
            cnt[x] = k + 1
        lin.append(tuple(la))
    return tuple(lin)


def canonical(seq, cuts, R):
    used = []
    for x in seq:
        if not (0 <= x < R):
            return False
        if x not in used:
            used.append(x)
    if used != list(range(len(used))):
        return False
    for i in range(len(cuts)):
        if not cuts[i] and seq[i] == seq[i + 1]:
            return False
    return True


def ev(lin, ys):
    """instantiate a linearization with the yields (lists of block tuples) of the right-hand-side elements"""
    out = []
    used = {}
    for arg in lin:
        cur = ()
        for (r, a) in arg:
            if r >= len(ys) or used.get(r, 0) != a or a >= len(ys[r]):
                return None
            used[r] = a + 1
            cur += ys[r][a]
        out.append(cur)
    for r in range(len(ys)):
        if used.get(r, 0) != len(ys[r]):
            return None         # a block is not used: fan-out mismatch between use and definition
    return tuple(out)


def yields(bing, sym, leafy, fuel):
    """all yields derivable for sym by chains of rules of the binarized grammar"""
    if sym in leafy:
        return [tuple(leafy[sym])]
    if fuel == 0:
        return []
    res = []
    for f in bing:
        if f[0] != sym:
            continue
        for l in bing[f]:
            opts = [yields(bing, s, leafy, fuel - 1) for s in f[1:]]
            if len(opts) == 1:
                combos = [(a,) for a in opts[0]]
            else:
                combos = [(a, b) for a in opts[0] for b in opts[1]]
            for ys in combos:
                y = ev(l, [list(x) for x in ys])
                if y is not None and y not in res:
                    res.append(y)
    return res


def _markov(mk, v, h, nf):
    if not mk:
        return None
    o = {'v': v, 'h': h}
    if nf:
        o['nofanout'] = True
    return o


def check_grammar(g, opt, mopts, top_syms):
    """binarize g and check every original rule; returns '' or reason"""
    b = grammar.binarize(g, reordering=grammar.reordering_optimal if opt else grammar.reordering_none,
                         markov_opts=mopts)
    for f in b:
        if len(f) > 3:
            return "rule %s has %d right-hand-side elements" % (f, len(f) - 1)
    orig_syms = set(s for f in g for s in f)
    for f in g:
        for lin in g[f]:
            rank = len(f) - 1
            fo = grammaranalysis.fan_out(lin)
            # name the blocks of the right-hand-side occurrences; equal symbols get the same names only if they are
            # the same occurrence, so occurrences are made distinguishable by renaming the grammar copy for this rule
            leafy = {}
            names = []
            for i in range(rank):
                nm = "%s#%d" % (f[i + 1], i)
                names.append(nm)
                leafy[nm] = [("%s.%d" % (nm, j),) for j in range(fo[i + 1])]
            want = ev(lin, [leafy[nm] for nm in names])
            if rank <= 2:
                cands = [(ff, ll) for ff in b if ff[0] == f[0] and sorted(ff[1:]) == sorted(f[1:]) for ll in b[ff]]
                ok = False
                for ff, ll in cands:
                    # map occurrences of ff's rhs to names (try both assignments for equal symbols)
                    perms = [list(range(rank))] if rank < 2 else [[0, 1], [1, 0]]
                    for pm in perms:
                        if all(ff[1 + k] == f[1 + pm[k]] for k in range(rank)):
                            y = ev(ll, [leafy[names[pm[k]]] for k in range(rank)])
                            if y == want:
                                ok = True
                                if not opt and (ff != f or ll != lin):
                                    ok = False
                if not ok:
                    return "rule %s %s of rank <= 2 is not kept (up to reordering)" % (f, lin)
                continue
            # rank > 2: search for a chain; the top rule must rewrite f[0] into one rhs occurrence and a @-symbol
            found = False
            for ff in b:
                if ff[0] != f[0] or len(ff) != 3:
                    continue
                for ll in b[ff]:
                    for i0 in range(rank):
                        if ff[1] != f[1 + i0]:
                            continue
                        rest = [k for k in range(rank) if k != i0]
                        lf = dict((ff[1] + "", None) for _ in ())
                        # symbols of the remaining occurrences must be consumed by the chain below ff[2]
                        ys_rest = _chain_yields(b, ff[2], [(f[1 + k], leafy[names[k]]) for k in rest], rank + 1, orig_syms)
                        for yr in ys_rest:
                            y = ev(ll, [leafy[names[i0]], list(yr)])
                            if y == want:
                                found = True
            if not found:
                return "no chain of binarized rules composes to %s %s (reordering %s, markov %s)" % (
                    f, lin, "optimal" if opt else "none", mopts)
    if mopts is None:
        # deterministic: binarization symbols unique, each defined by exactly one rule with one fan-out
        defs = {}
        for f in b:
            if f[0] not in orig_syms:
                for l in b[f]:
                    defs[f[0]] = defs.get(f[0], 0) + 1
        for s, k in defs.items():
            if k != 1:
                return "binarization symbol %s is defined by %d rules" % (s, k)
    return ""


def _chain_yields(b, sym, occs, fuel, orig_syms):
    """yields of binarization symbol sym that consume exactly the occurrences occs = [(symbol, blocks)] (each once)"""
    if fuel == 0:
        return []
    res = []
    for f in b:
        if f[0] != sym or len(f) != 3:
            continue
        for l in b[f]:
            if len(occs) == 2:
                for (a, c) in ((0, 1), (1, 0)):
                    if f[1] == occs[a][0] and f[2] == occs[c][0]:
                        y = ev(l, [occs[a][1], occs[c][1]])
                        if y is not None and y not in res:
                            res.append(y)
            elif len(occs) > 2:
                for a in range(len(occs)):
                    if f[1] != occs[a][0] or f[2] in orig_syms:
                        continue
                    rest = occs[:a] + occs[a + 1:]
                    for yr in _chain_yields(b, f[2], rest, fuel - 1, orig_syms):
                        y = ev(l, [occs[a][1], list(yr)])
                        if y is not None and y not in res:
                            res.append(y)
    return res


def rule(V, R, opt, mk, v, h, nf, same, **kw):
    """one symbolic canonical rule"""
    seq = [kw["r%d" % i] for i in range(1, V + 1)]
    cuts = [kw["c%d" % i] for i in range(1, V)]
    lin = mk_lin(seq, cuts)
    rank = max(seq) + 1
    syms = ["B0", "B1", "B2", "B3", "B4"]
    if same:
        syms = ["B", "B", "C", "C", "B"]        # repeated right-hand-side symbols
    func = tuple(["A"] + syms[:rank])
    g = {func: {lin: {("A%d" % len(lin), "S1"): 3}}}
    return check_grammar(g, opt, _markov(mk, v, h, nf), ["A"])


def flat(rank, opt, mk, v, h, nf, same, **kw):
    """a rule whose right-hand side has `rank` elements, each used once, with symbolic argument cuts"""
    cuts = [kw["c%d" % i] for i in range(1, rank)]
    lin = mk_lin(list(range(rank)), cuts)
    syms = ["B0", "B1", "B2", "B3", "B4", "B5"]
    if same:
        syms = ["B", "B", "B", "C", "C", "B"]
    func = tuple(["A"] + syms[:rank])
    g = {func: {lin: {("A%d" % len(lin), "S1"): 2}}}
    return check_grammar(g, opt, _markov(mk, v, h, nf), ["A"])


def twotrees(m, n, opt, mk, v, h, nf, **kw):
    """grammar extracted from two different trees over the same labels (same productions with different gap patterns)"""
    g, lex = {}, {}
    for pre in ("a", "b"):
        ip = [kw["%sip%d" % (pre, i)] for i in range(1, m)]
        lp = [kw["%slp%d" % (pre, j)] for j in range(1, n + 1)]
        nodes, leaves = build_e1(m, n, ip, lp, labels=["R", "X", "X", "Y"][:m], pos=["P", "P", "Q", "P", "Q", "P", "Q"][:n])
        grammar.extract(nodes[0], g, lex)
    return check_grammar(g, opt, _markov(mk, v, h, nf), ["R"])


def canon(R, *a):
    V = (len(a) + 1) // 2
    return canonical(list(a[:V]), list(a[V:]), R)


def fromtree(m, n, opt, mk, v, h, nf, **kw):
    """grammar extracted from an E1 tree (plus a second extraction under another root label)"""
    ip, lp = e1_get(kw, m, n)
    g, lex = {}, {}
    for lab in ("R", "R2"):
        nodes, leaves = build_e1(m, n, ip, lp, labels=[lab, "X", "X", "Y"][:m], pos=["P", "P", "Q", "P", "Q", "P", "Q"][:n])
        grammar.extract(nodes[0], g, lex)
    return check_grammar(g, opt, _markov(mk, v, h, nf), ["R", "R2"])


def _noncanon(sf):
    """shard constants r2.. that cannot start a canonical rule (first occurrences must come in order)"""
    seen = 0
    i = 2
    while "r%d" % i in sf:
        if sf["r%d" % i] > seen + 1:
            return True
        seen = max(seen, sf["r%d" % i])
        i += 1
    return False


def conds(tier):
    q = tier == "quick"
    cs = []
    R = 4
    plans = [(3, False), (4, False), (3, True)] if q else [(3, False), (4, False), (5, False), (3, True), (4, True)]
    for (V, mk) in plans:
        ps = [P("r%d" % i, "int", 0, R) for i in range(1, V + 1)] + [P("c%d" % i, "bool") for i in range(1, V)]
        ps += [P("opt", "bool"), P("same", "bool")]
        if mk:
            hi = 3 if q else 4
            ps += [P("v", "int", 0, hi), P("h", "int", 0, hi), P("nf", "bool")]
        fixed = {"V": V, "R": R, "mk": mk}
        if not mk:
            fixed.update({"v": 0, "h": 0, "nf": False})
        names = ", ".join(["r%d" % i for i in range(1, V + 1)] + ["c%d" % i for i in range(1, V)])
        sh = ["opt", "r2"]
        if V >= 4:
            sh += ["r3"]
        if V >= 5:
            sh += ["r4"]
        if V >= 6:
            sh += ["r5", "c1"]
        if mk:
            sh += ["v"] + (["h"] if V >= 4 else [])
        cs.append(Cond("rule-V%d-%s" % (V, "markov" if mk else "det"), "harness.c07:rule", ps, fixed=fixed,
                       pre=["r1 == 0", "_h.canon(%d, %s)" % (R, names)] + (["not same"] if V < 3 else []),
                       shard=sh, skip=_noncanon, timeout=600 if q else 3000, functions=FUNCS[:8]))
    for rank in (5, 6):
        ps = [P("c%d" % i, "bool") for i in range(1, rank)] + [P("opt", "bool"), P("same", "bool"), P("mk", "bool"),
                                                              P("v", "int", 0, 2), P("h", "int", 0, 3), P("nf", "bool")]
        cs.append(Cond("flat-rank%d" % rank, "harness.c07:flat", ps, fixed={"rank": rank},
                       pre=["mk or (v == 0 and h == 0 and not nf)"] + (["not nf and (not mk or v == 1)"] if q else []),
                       shard=["opt", "mk"] + ([] if q else ["h"]),
                       skip=(lambda sf: sf["mk"]) if (q and rank >= 6) else (lambda sf: (not sf["mk"]) and sf.get("h", 0) > 0),
                       timeout=600 if q else 3000, functions=FUNCS[:8],
                       note="right-hand sides with %d elements" % rank))
    for (m, n) in [(2, 3), (2, 4)]:
        from harness.symtree import e1_wf_expr as _wfe
        ps = e1_params(m, n, "a") + e1_params(m, n, "b") + [P("opt", "bool"), P("mk", "bool"), P("v", "int", 0, 2), P("h", "int", 0, 2 if q else 3), P("nf", "bool")]
        cs.append(Cond("twotrees-m%d-n%d" % (m, n), "harness.c07:twotrees", ps, fixed={"m": m, "n": n},
                       pre=[_wfe(m, n, "a"), _wfe(m, n, "b"), "mk or (v == 0 and h == 0 and not nf)"] +
                       (["mk and v == 0 and not nf"] if (q and n >= 4) else []), shard=["opt", "mk"] + (["alp1", "alp2"] if n >= 4 else []),
                       skip=(lambda sf: not sf["mk"]) if (q and n >= 4) else None,
                       timeout=600 if q else 3000, functions=FUNCS,
                       note="two symbolic trees over the same labels extracted into one grammar"))
    for (m, n) in ([(1, 5), (2, 3), (2, 4)] if q else [(1, 5), (1, 6), (2, 3), (2, 4), (3, 4), (2, 5), (3, 5)]):
        ps = e1_params(m, n) + [P("opt", "bool"), P("mk", "bool"), P("v", "int", 0, 2 if q else 3), P("h", "int", 0, 2 if q else 3), P("nf", "bool")]
        cs.append(Cond("fromtree-m%d-n%d" % (m, n), "harness.c07:fromtree", ps, fixed={"m": m, "n": n},
                       pre=[e1_wf_expr(m, n), "mk or (v == 0 and h == 0 and not nf)"], shard=["opt", "mk"] + (["lp1"] if m ** n >= 60 else []) +
                       (["v"] if n >= 5 else []), skip=lambda sf: (not sf["mk"]) and bool(sf.get("v", 0)),
                       timeout=600 if q else 3000, functions=FUNCS))
    return cs
