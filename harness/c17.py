"""C17 Output splitting partitions the treebank in order into well-formed parts."""
import argparse
from vlib.cond import Cond, P
from trees import transform, treeinput, treeoutput
from harness import stubs, c01, c02, c03
from harness.formats import (enc_export, dec_export, dec_brackets, dec_tiger, dec_terminals, spec_tokens, show, decode_file)
from harness.symtree import wellformed

FUNCS = ["treeoutput.parse_split_specification", "transform.run (split branch)", "transform.filter_by_length",
         "treeoutput.*_begin/_end"] + c02.FUNCS[:8]
ASSUMPTIONS = ["specification arithmetic: every specification of up to 3 parts over N#, N% and rest (incl. a second rest, a "
               "missing suffix, an empty part, a negative number) with numerals and treebank size from bounded ranges; "
               "stderr messages have no effect on the result",
               "distribution: transform.run with --split in-process on the in-memory file system; corpus of s one- and "
               "two-token sentences in export format; the unsplit run of the same command is the reference"]
OUTSIDE = ["CrossHair conditions: numerals / sizes above the stated bounds (the Engine B lemma covers all integers for "
           "specifications of up to 3 parts; if the source contains floating point it falls back to numerals <= 100, sizes <= 2^20)",
           "corpora of more than 6 sentences"]
KINDS = ["#", "%", "rest", "", "x#", "-#"]      # kinds of parts; the last three are malformed


def _ref(parts, size):
    """reference: (sizes) or None if the specification must be rejected"""
    sizes = []
    rest = None
    for i, (kind, num) in enumerate(parts):
        if kind == "#":
            sizes.append(num)
        elif kind == "%":
            sizes.append((num * size) // 100)
        elif kind == "rest":
            if rest is not None:
                return None
            rest = i
            sizes.append(0)
        else:
            return None
    tot = sum(sizes)
    if tot > size:
        return None
    if tot < size:
        if rest is not None:
            sizes[rest] = size - tot
        else:
            sizes[sizes.index(max(sizes))] += size - tot
    return sizes


def _spec(parts):
    out = []
    for kind, num in parts:
        if kind == "rest":
            out.append("rest")
        elif kind == "":
            out.append("")
        elif kind == "x#":
            out.append("%dx#" % num)
        elif kind == "-#":
            out.append("-%d#" % (num + 1))
        else:
            out.append("%d%s" % (num, kind))
    return "_".join(out)


def arith(p, size, sz8=0, **kw):
    """parse_split_specification against the documented rule"""
    stubs.install()
    parts = [(KINDS[kw["k%d" % i]], kw["a%d" % i]) for i in range(1, p + 1)]
    spec = _spec(parts)
    want = _ref(parts, size)
    try:
        got = treeoutput.parse_split_specification(spec, size)
    except ValueError:
        return "" if want is None else "specification %r for %d trees rejected, expected %r" % (spec, size, want)
    if want is None:
        return "specification %r for %d trees accepted as %r, must be rejected" % (spec, size, got)
    if got != want:
        return "specification %r for %d trees gives %r, expected %r" % (spec, size, got, want)
    if any(x < 0 for x in got) or sum(got) != size:
        return "part sizes %r are negative or do not sum to %d" % (got, size)
    return ""


SPECS = ["rest", "1#_rest", "50%_50%", "rest_1#", "2#_1#", "34%_33%_rest", "0#_rest", "100%", "1#_1#_1#_rest", "3#"]
DF = ["export", "brackets", "discobrackets", "tigerxml", "terminals"]


def _corpus(s, kw):
    sents = []
    for i in range(s):
        two = kw["t%d" % (i + 1)]
        toks = [("T", "w\u00e4%d" % (i + 1), "P", "HD", "--", "--", 1)]
        if two:
            toks.append(("T", "v%d" % (i + 1), "Q", "NK", "--", "--", 2))
        sents.append((i + 1, ("N", "VROOT", "--", (("N", "NP", "SB", tuple(toks)),))))
    return sents


DENC = ["utf-8", "latin-1"]


def _args(dest, df, split, trans, params, de=0):
    return argparse.Namespace(src="c.export", dest=dest, counting=100, trans=trans, params=params, src_format="export",
                              src_enc="utf-8", src_opts=["quiet"], dest_format=df, dest_enc=DENC[de], dest_opts=[], split=split)


def _body(fmt, text):
    """strip the format's framing"""
    if fmt == "tigerxml":
        pre = "<?xml version='1.0' encoding='utf-8'?>\n<corpus>\n<body>\n"
        post = "</body>\n</corpus>"
        if not (text.startswith(pre) and text.endswith(post)):
            return None
        return text[len(pre):len(text) - len(post)]
    return text


def distribute(s, df, sp, flt, de=0, **kw):
    stubs.install()
    sents = _corpus(s, kw)
    stubs.put("c.export", enc_export(sents))
    fmt = DF[df]
    trans, params = [], []
    if flt:
        trans, params = ["filter_by_length"], ["filteroperator:gt", "filtervalue:1"]
    kept = [x for x in sents if not (flt and len(spec_tokens(x[1])) > 1)]
    spec = SPECS[sp]
    try:
        transform.run(_args("u.out", fmt, "", trans, params, de))
    except Exception as e:      # noqa
        return "unsplit run failed: %s: %s" % (type(e).__name__, e)
    whole, prob = decode_file(fmt, stubs.MemFS.files["u.out"] if fmt == "tigerxml" else stubs.get("u.out", DENC[de]))
    if prob:
        return "unsplit %s output does not decode: %s" % (fmt, prob)
    parts_exp = None
    try:
        import re
        ps = []
        for x in spec.split("_"):
            if x == "rest":
                ps.append(("rest", 0))
            else:
                ps.append((x[-1], int(x[:-1])))
        parts_exp = _ref(ps, len(kept))
    except Exception:       # noqa
        parts_exp = None
    try:
        transform.run(_args("s.out", fmt, spec, trans, params, de))
    except ValueError as e:
        if parts_exp is None:
            return ""       # more trees demanded than exist: rejected
        return "split %r of %d trees rejected: %s" % (spec, len(kept), e)
    except Exception as e:  # noqa
        return "split run failed: %s: %s" % (type(e).__name__, e)
    if parts_exp is None:
        return "split %r of %d trees accepted" % (spec, len(kept))
    names = ["s.out.%d" % i for i in range(len(parts_exp))]
    extra = [n for n in stubs.MemFS.files if n.startswith("s.out") and n not in names]
    if extra:
        return "unexpected part files %r" % extra
    cat = []
    for i, nme in enumerate(names):
        if nme not in stubs.MemFS.files:
            return "part %d was not written" % i
        try:
            text = stubs.get(nme, DENC[de])
        except UnicodeError as e:
            return "part %d is not valid %s: %s" % (i, DENC[de], e)
        items, prob = decode_file(fmt, stubs.MemFS.files[nme] if fmt == "tigerxml" else text)
        if prob:
            return "part %d is not a complete %s file: %s -- %r" % (i, fmt, prob, text[:80])
        if len(items) != parts_exp[i]:
            return "part %d holds %d sentences, specification %r of %d trees says %d" % (i, len(items), spec, len(kept), parts_exp[i])
        cat.extend(items)
        # each part is accepted by the corresponding reader with the right number of trees
        if fmt != "terminals":
            try:
                got = list(getattr(treeinput, fmt)(nme, DENC[de], quiet=True))
            except Exception as e:      # noqa
                return "part %d is rejected by the %s reader: %s: %s" % (i, fmt, type(e).__name__, e)
            if len(got) != parts_exp[i]:
                return "part %d holds %d trees, specification %r of %d trees says %d" % (i, len(got), spec, len(kept), parts_exp[i])
            for t in got:
                w = wellformed(t)
                if w:
                    return "part %d: %s" % (i, w)
        else:
            if len(dec_terminals(text)) != parts_exp[i]:
                return "part %d holds %d sentences, expected %d" % (i, len(dec_terminals(text)), parts_exp[i])
    if cat != whole:
        return "the parts taken in order hold %r, the unsplit output %r" % (cat, whole)
    # the same command once more in the same process: same parts
    first = [stubs.MemFS.files[nme] for nme in names]
    try:
        transform.run(_args("s2.out", fmt, spec, trans, params, de))
    except Exception as e:      # noqa
        return "second split run in the same process failed: %s: %s" % (type(e).__name__, e)
    second = [stubs.MemFS.files["s2.out.%d" % i] if ("s2.out.%d" % i) in stubs.MemFS.files else None for i in range(len(parts_exp))]
    if second != first:
        return "a second split run in the same process writes %r, the first wrote %r" % (second, first)
    return ""


def lemmas(tier):
    """Engine B (pysym): parse_split_specification against the documented rule for unbounded numerals and sizes"""
    return [{"module": "harness.c17_lemma", "replay": "harness.c17_lemma:replay", "timeout": 2400}]


def conds(tier):
    q = tier == "quick"
    cs = []
    amax, smax = (4, 6) if q else (6, 10)
    for p in (1, 2, 3):
        ks = [P("k%d" % i, "int", 0, 3 if p == 3 else len(KINDS)) for i in range(1, p + 1)]
        if p == 3:
            avals = [P("a%d" % i, "int", 0, 3) for i in range(1, p + 1)]
            size = P("size", "int", 0, 5 if q else 7)
        else:
            avals = [P("a%d" % i, "int", 0, amax) for i in range(1, p + 1)]
            size = P("size", "int", 0, smax + 1)
        cs.append(Cond("arith-p%d" % p, "harness.c17:arith", ks + avals + [size], fixed={"p": p},
                       shard=["k1"] + (["k2"] if p >= 2 else []) + (["k3"] if p >= 3 else []),
                       timeout=600 if q else 3000, functions=FUNCS[:1]))
    # percentages that matter for rounding: numerals up to 100 with sizes up to 100 are covered by two dedicated conditions
    cs.append(Cond("percent", "harness.c17:arith", [P("a1", "int", 0, 101), P("size", "int", 0, 64 if q else 121), P("sz8", "int", 0, 8)],
                   fixed={"p": 2, "k1": 1, "k2": 2, "a2": 0}, pre=["size % 8 == sz8"], shard=["sz8"],
                   timeout=600 if q else 3000, functions=FUNCS[:1],
                   note="N%_rest for N in 0..100 and every treebank size up to the bound (rounding of percentages)"))
    for s in ([1, 2, 3] if q else [1, 2, 3, 4, 5, 6]):
        ts = [P("t%d" % i, "bool") for i in range(1, s + 1)]
        cs.append(Cond("distribute-s%d" % s, "harness.c17:distribute",
                       ts + [P("df", "int", 0, 5), P("sp", "int", 0, len(SPECS)), P("flt", "bool"), P("de", "int", 0, 2)], fixed={"s": s},
                       pre=(["de == (sp + df) % 2"] if (q or s >= 4) else []),
                       shard=["df"] + (["flt"] if s >= 3 else []) + (["t1"] if s >= 5 else []), timeout=600 if q else 3000,
                       functions=FUNCS[1:]))
    return cs
