"""C02 Writers encode every tree faithfully in each output format."""
from vlib.cond import Cond, P
from trees import trees, treeoutput
from harness import stubs
from harness.symtree import e1_params, e1_get, e1_wf_expr, wf, build_e1, all_nodes
from harness.formats import (spec_e1, build_tree, span, spec_tokens, spec_nodes, spec_gapdeg, project, show,
                             paren_names, dec_export, dec_brackets, dec_tiger, dec_terminals)

FUNCS = ["treeoutput.export", "treeoutput.export_format", "treeoutput.export_tabs",
         "treeoutput.compute_export_numbering", "treeoutput.brackets", "treeoutput.write_brackets_subtree",
         "treeoutput.discobrackets", "treeoutput.tigerxml", "treeoutput.tigerxml_begin/_end",
         "treeoutput.terminals", "trees.get_label", "trees.levels", "trees.replace_chars",
         "treeanalysis.gap_degree"]
ASSUMPTIONS = [
    "trees are built through trees.Tree (never through the readers); output goes to a pure-Python stream "
    "(write() appends); print(file=) is write(sep.join(args)+end)",
    "words/labels come from the small alphabets listed in harness/c02.py (incl. XML-special, non-ASCII, "
    "parenthesis-bearing words, '#1', lengths 7/8/15/16); fields never contain whitespace or are empty",
    "the decoders in harness/formats.py are the reference semantics of the formats",
]
OUTSIDE = ["streams with an encoding (covered through the command-line path in C03)", "trees larger than the bound",
           "field values outside the alphabets"]

FMTS = ["export", "brackets", "discobrackets", "tigerxml", "terminals"]
WORDS = ["a", ",", "``", "(", "b)c", "<&\"'>", "ä", "#1", "abcdefg", "abcdefgh", "abcdefghijklmno",
         "abcdefghijklmnop", "-LRB-", "[x}"]
OPT3 = [None, "--", "xy"]
EDGES = [None, "--", "HD", "-X"]
SEPS = [None, "#", "/"]
SIDS = [1, 7, 12345]


def _deco(label, edge, is_term, head, split, blk, o):
    out = label
    sep = str(o['gf_separator']) if 'gf_separator' in o else "-"
    if 'gf' in o and edge is not None and not edge.startswith("-") and (not is_term or 'gf_terminals' in o):
        out += sep + edge
    if 'mark_heads_marking' in o and head:
        out += "'"
    if 'boyd_split_marking' in o and split:
        out += "*"
    if 'boyd_split_numbering' in o and split:
        out += str(blk)
    return out


def _write(fmt, tree, o):
    """run one writer on one tree (with the format's preamble and suffix); returns (text, exception)"""
    out = stubs.Sink()
    try:
        getattr(treeoutput, fmt + "_begin")(out, **dict(o))
        getattr(treeoutput, fmt)(tree, out, **dict(o))
        getattr(treeoutput, fmt + "_end")(out, **dict(o))
    except Exception as e:      # noqa
        return out.text(), e
    return out.text(), None


def _expect(spec, fmt, o, flags):
    """the spec an independent decoder must recover from the output (what the format can carry)"""
    def lab(s):
        fl = flags.get(id(s), (False, False, 1))
        if s[0] == "T":
            return _deco(s[2], s[3], True, fl[0], fl[1], fl[2], o)
        return _deco(s[1], s[2], False, fl[0], fl[1], fl[2], o)

    def dflt(v):
        return "--" if v is None else v

    def rec(s, top=False):
        if s[0] == "T":
            if fmt == "export":
                return ("T", s[1], lab(s), dflt(s[3]), dflt(s[4]) if 'export_four' in o else None, dflt(s[5]), s[6])
            if fmt == "tigerxml":
                return ("T", s[1], dflt(s[2]), dflt(s[3]), dflt(s[4]), dflt(s[5]), s[6])
            return ("T", paren_names(s[1]), paren_names(lab(s)), None, None, None, s[6])
        ch = tuple(rec(c) for c in s[3])
        if fmt == "export":
            return ("N", "VROOT" if top else lab(s), "--" if top else dflt(s[2]), ch)
        if fmt == "tigerxml":
            return ("N", s[1], None if top else dflt(s[2]), ch)
        return ("N", "" if (top and 'brackets_emptyroot' in o) else lab(s), None, ch)
    return rec(spec, True)


def check_writer(fmt, spec, sid, o, flags=None, rev=False):
    """write `spec` with writer `fmt` and options `o`; '' or the reason the output is not faithful"""
    flags = flags or {}
    stubs.install()
    tree = build_tree(spec, sid=sid, rev=rev)
    # attach head/split flags to the real nodes (keyed by position in the spec traversal)
    order_spec = spec_nodes(spec)
    real = {}

    def pair(s, t):
        real[id(s)] = t
        if s[0] == "N":
            ks = sorted(t.children, key=lambda c: min(x.data['num'] for x in all_nodes(c) if not x.children))
            for cs, ct in zip(s[3], ks):
                pair(cs, ct)
    pair(spec, tree)
    for s in order_spec:
        fl = flags.get(id(s), (False, False, 1))
        real[id(s)].data['head'] = fl[0]
        real[id(s)].data['split'] = fl[1]
        real[id(s)].data['block_number'] = fl[2]
    text, exc = _write(fmt, tree, o)
    disc = spec_gapdeg(spec) > 0
    if fmt == "brackets" and disc:
        if 'brackets_skipdisco' in o:
            if exc is not None:
                return "brackets_skipdisco: %s: %s" % (type(exc).__name__, exc)
            if text != "":
                return "brackets_skipdisco wrote %r for a discontinuous tree" % text
            return ""
        if not isinstance(exc, ValueError):
            return "discontinuous tree not refused by the bracket writer (wrote %r, exception %r)" % (text, exc)
        return ""
    if exc is not None:
        return "%s writer failed: %s: %s" % (fmt, type(exc).__name__, exc)
    exp = _expect(spec, fmt, o, flags)
    if fmt == "export":
        sents, prob = dec_export(text, v4='export_four' in o)
    elif fmt == "brackets":
        sents, prob = dec_brackets(text)
    elif fmt == "discobrackets":
        sents, prob = dec_brackets(text, disco=True)
    elif fmt == "tigerxml":
        sents, prob = dec_tiger(text.encode("utf-8"))
    else:
        one, wp = 'terminals_one' in o, 'terminals_pos' in o
        got = dec_terminals(text, one=one, pos=wp)
        want = [[(t[1], t[2] if wp else None) for t in spec_tokens(spec)]]
        if got != want:
            return "terminals output %r decodes to %r, expected %r" % (text, got, want)
        return ""
    if prob:
        return "%s output does not decode: %s -- %r" % (fmt, prob, text)
    if len(sents) != 1:
        return "%d sentences decoded from one tree" % len(sents)
    gsid, got = sents[0]
    if fmt in ("export", "tigerxml") and gsid != sid:
        return "sentence id %r, expected %r" % (gsid, sid)
    if fmt == "tigerxml":
        got = ("N", got[1], None, got[3])
    if got != exp:
        return "%s output decodes to %s, expected %s -- %r" % (fmt, show(got), show(exp), text)
    return ""


# ----------------------------------------------------------------------------- conditions
def structure(m, n, f, rev, sidsel, skip, **kw):
    """all shapes E1(m, n), plain fields: dominance, order, numbering, ids; bracket writer refusal"""
    ip, lp = e1_get(kw, m, n)
    spec = spec_e1(m, n, ip, lp)
    o = {}
    if skip:
        o['brackets_skipdisco'] = True
    return check_writer(FMTS[f], spec, SIDS[sidsel], o, rev=rev)


def fields(f, shape, four, w, lem, mor, edg, cedg, wpos, one):
    """one designated token ranges over the word alphabet and absent/default/present optional fields"""
    word = WORDS[w]
    if shape == 0:      # (VROOT (X t1 t2))
        spec = ("N", "VROOT", "--", (("N", "NP", EDGES[cedg], (
            ("T", word, "P1", EDGES[edg], OPT3[lem], OPT3[mor], 1),
            ("T", "z", "P2", "--", "--", "--", 2))),))
    else:               # (VROOT t1 (X t2)), designated token last
        spec = ("N", "VROOT", "--", (("T", "z", "P1", "--", "--", "--", 1),
                                      ("N", "NP", EDGES[cedg], (("T", word, "P2", EDGES[edg], OPT3[lem], OPT3[mor], 2),))))
    o = {}
    if four:
        o['export_four'] = True
    if wpos:
        o['terminals_pos'] = True
    if one:
        o['terminals_one'] = True
    return check_writer(FMTS[f], spec, 7, o)


def pair(m, n, f, four, **kw):
    """two trees written one after the other with the same writer (the second smaller than the first): the output holds
    exactly the two sentences -- nothing of the first tree may leak into the second"""
    stubs.install()
    ip, lp = e1_get(kw, m, n)
    a = spec_e1(m, n, ip, lp)
    b = ("N", "VROOT", "--", (("T", "z", "Q", "--", "--", "--", 1),))
    fmt = FMTS[f]
    if fmt == "brackets" and spec_gapdeg(a) > 0:
        return "~"
    o = {'export_four': True} if (four and fmt == "export") else {}
    out = stubs.Sink()
    try:
        getattr(treeoutput, fmt + "_begin")(out, **dict(o))
        getattr(treeoutput, fmt)(build_tree(a, sid=3), out, **dict(o))
        getattr(treeoutput, fmt)(build_tree(b, sid=4), out, **dict(o))
        getattr(treeoutput, fmt + "_end")(out, **dict(o))
    except Exception as e:      # noqa
        return "%s writer failed on the second tree: %s: %s" % (fmt, type(e).__name__, e)
    text = out.text()
    if fmt == "terminals":
        got = dec_terminals(text)
        want = [[(t[1], None) for t in spec_tokens(s)] for s in (a, b)]
        return "" if got == want else "terminals output %r decodes to %r, expected %r" % (text, got, want)
    from harness.formats import decode_file
    sents, prob = decode_file(fmt, text, v4=bool(o))
    if prob:
        return "%s output of two trees does not decode: %s -- %r" % (fmt, prob, text)
    exp = [_expect(s, fmt, o, {}) for s in (a, b)]
    got = [g for _, g in sents]
    if fmt == "tigerxml":
        got = [("N", g[1], None, g[3]) for g in got]
    if got != exp:
        return "%s output of two trees decodes to %s, expected %s" % (fmt, [show(g) for g in got], [show(e) for e in exp])
    if fmt in ("export", "tigerxml") and [s for s, _ in sents] != [3, 4]:
        return "sentence ids %r, expected [3, 4]" % ([s for s, _ in sents],)
    return ""


ROOTLABELS = ["VROOT", "TOP"]
XLABELS = ["NP", "VROOT"]


def decor(f, gf, gft, si, mh, bm, bn, er, ex, et, hx, ht, sx, st, blk, rl=0, xl=0):
    """label decorations appear exactly on the nodes they apply to: (ROOT (X t1 t2) t3)"""
    t1 = ("T", "a", "P1", EDGES[et], "--", "--", 1)
    t2 = ("T", "b", "P2", "--", "--", "--", 2)
    t3 = ("T", "c", "P3", "HD", "--", "--", 3)
    x = ("N", XLABELS[xl], EDGES[ex], (t1, t2))
    spec = ("N", ROOTLABELS[rl], "--", (x, t3))
    flags = {id(x): (hx, sx, blk), id(t1): (ht, st, blk + 1), id(t2): (not ht, False, 1), id(t3): (False, False, 1),
             id(spec): (False, False, 1)}
    o = {}
    if gf:
        o['gf'] = True
    if gft:
        o['gf_terminals'] = True
    if SEPS[si] is not None:
        o['gf_separator'] = SEPS[si]
    if mh:
        o['mark_heads_marking'] = True
    if bm:
        o['boyd_split_marking'] = True
    if bn:
        o['boyd_split_numbering'] = True
    if er:
        o['brackets_emptyroot'] = True
    return check_writer(FMTS[f], spec, 1, o, flags)


def tabs(length):
    """export_tabs: 1-3 tabs in the three documented bands, for every length >= 0 (unbounded above; a field length is never negative)"""
    r = treeoutput.export_tabs(length)
    if length < 8:
        exp = "\t\t\t"
    elif length < 16:
        exp = "\t\t"
    else:
        exp = "\t"
    if r != exp:
        return "export_tabs(%r) = %r" % (length, r)
    return ""


def conds(tier):
    q = tier == "quick"
    cs = []
    shapes = [(1, 1), (2, 1), (1, 2), (2, 2), (3, 2), (2, 3), (3, 3)] if q else \
        [(1, 1), (2, 1), (1, 2), (2, 2), (3, 2), (2, 3), (3, 3), (2, 4), (3, 4)]
    for (m, n) in shapes:
        big = m * n >= 9
        cs.append(Cond("structure-m%d-n%d" % (m, n), "harness.c02:structure",
                       e1_params(m, n) + [P("f", "int", 0, 5), P("rev", "bool"), P("sidsel", "int", 0, 3), P("skip", "bool")],
                       fixed={"m": m, "n": n}, pre=[e1_wf_expr(m, n)],
                       shard=(["f", "rev"] if big else ["f"]) + (["lp1"] if m * n >= 12 else []),
                       timeout=400 if q else 2400, functions=FUNCS))
    cs.append(Cond("fields", "harness.c02:fields",
                   [P("f", "int", 0, 5), P("shape", "int", 0, 2), P("four", "bool"), P("w", "int", 0, len(WORDS)),
                    P("lem", "int", 0, 3), P("mor", "int", 0, 3), P("edg", "int", 0, 3 if q else 4), P("cedg", "int", 1 if q else 0, 2 if q else 3),
                    P("wpos", "bool"), P("one", "bool")],
                   pre=["(f == 0 or not four) and (f == 4 or not (wpos or one))"],
                   shard=["f", "shape", "lem"], timeout=600 if q else 2400, functions=FUNCS))
    cs.append(Cond("decor", "harness.c02:decor",
                   [P("f", "int", 0, 3), P("gf", "bool"), P("gft", "bool"), P("si", "int", 0, 3), P("mh", "bool"),
                    P("bm", "bool"), P("bn", "bool"), P("er", "bool"), P("ex", "int", 0, 4), P("et", "int", 0, 4),
                    P("hx", "bool"), P("ht", "bool"), P("sx", "bool"), P("st", "bool"), P("blk", "int", 1, 3),
                    P("rl", "int", 0, 2), P("xl", "int", 0, 2)],
                   pre=["(f != 0 or not er)", "rl == xl or er"] + (["si < 2 and et == ex and blk == 1 and hx == ht and sx == st and ((rl == 0 and xl == 0) or (er and not (gf or mh or bm or bn or hx or sx)))"] if q else ["hx == ht and (bn or blk == 1) and si < 1 + (1 if gf else 0) and ex > 0 and et > 0 and ((rl == 0 and xl == 0) or (er and not (mh or bm or bn)))"]),
                   shard=["f", "gf", "gft", "mh"] + ([] if q else ["bm", "bn"]), timeout=600 if q else 2400, functions=FUNCS))
    for (m, n) in ([(2, 2), (3, 3)] if q else [(2, 2), (3, 3), (3, 4)]):
        cs.append(Cond("pair-m%d-n%d" % (m, n), "harness.c02:pair", e1_params(m, n) + [P("f", "int", 0, 5), P("four", "bool")],
                       fixed={"m": m, "n": n}, pre=[e1_wf_expr(m, n), "f == 0 or not four"], shard=["f"],
                       timeout=400 if q else 2400, functions=FUNCS,
                       note="two trees written in sequence by the same writer"))
    cs.append(Cond("tabs", "harness.c02:tabs", [P("length", "int", 0, None)], timeout=60,
                   functions=["treeoutput.export_tabs"], note="unbounded integer length"))
    return cs
