"""C06 Grammar extraction is faithful to the treebank."""
from vlib.cond import Cond, P
from trees import trees, grammar, grammaranalysis
from harness.symtree import (e1_params, e1_get, e1_wf_expr, wf, build_e1, cover, kids, runs, all_nodes, mknode, mkleaf,
                             attach)

FUNCS = ["grammar.extract", "grammaranalysis.fan_out", "grammaranalysis.is_contextfree", "trees.terminal_blocks",
         "treeanalysis.gap_degree_node", "trees.children", "trees.dominance"]
ASSUMPTIONS = ["treebank = an E1(m, n) tree extracted r times (r in 1..3) optionally followed by a fixed discontinuous "
               "tree that shares labels with it; constituent labels from {R, X, X, Y} and POS from {P, P, Q, P, Q} so that "
               "siblings repeat labels; words a b a b a so that lexicon counts exceed 1",
               "the expected grammar is computed set-based from the raw tree (blocks = maximal runs of covered positions)",
               "terminal_blocks / gap_degree_node on arbitrary symbolic positions are discharged under C16 (gaps-*)"]
OUTSIDE = ["treebanks of more than two distinct trees", "larger trees"]
LABELS = ["R", "X", "X", "Y"]
POS = ["P", "P", "Q", "P", "Q"]
WORDS = ["a", "b", "a", "b", "a"]


def expected(root, g, lex, times=1):
    """add the set-based expectation for one tree to (g, lex)"""
    for t in all_nodes(root):
        if not t.children:
            d = lex.setdefault(t.data['word'], {})
            d[t.data['label']] = d.get(t.data['label'], 0) + times
            continue
        ks = kids(t)
        func = tuple([t.data['label']] + [c.data['label'] for c in ks])
        cb = [runs(cover(c)) for c in ks]
        lin = []
        for block in runs(cover(t)):
            arg = []
            for tok in block:
                for ci, bl in enumerate(cb):
                    for bi, b in enumerate(bl):
                        if tok in b and (not arg or arg[-1] != (ci, bi)):
                            arg.append((ci, bi))
            lin.append(tuple(arg))
        lin = tuple(lin)
        vert = []
        x = t
        while x is not None:
            vert.append("%s%d" % (x.data['label'], len(runs(cover(x)))))
            x = x.parent
        e = g.setdefault(func, {}).setdefault(lin, {})
        e[tuple(vert)] = e.get(tuple(vert), 0) + times


def _second():
    """fixed second tree: (R (X t1 t3) (Y t2))  -- discontinuous, shares labels"""
    r = mknode("R")
    x = mknode("X")
    y = mknode("Y")
    attach(r, x)
    attach(r, y)
    attach(x, mkleaf("a", "P", 1))
    attach(y, mkleaf("c", "Q", 2))
    attach(x, mkleaf("b", "P", 3))
    r.data['sid'] = 2
    return r


def extract(m, n, r, two, rev, ly=False, **kw):
    ip, lp = e1_get(kw, m, n)
    LABELS = ["R", "X", "Y", "Y"] if ly else ["R", "X", "X", "Y"]
    g, lex = {}, {}
    eg, elex = {}, {}
    discont = False
    for _ in range(r):
        nodes, leaves = build_e1(m, n, ip, lp, labels=LABELS[:m], pos=POS[:n], words=WORDS[:n], rev=rev)
        ret = grammar.extract(nodes[0], g, lex)
        if ret is not g:
            return "extract does not return the grammar it was given"
    expected(nodes[0], eg, elex, r)
    discont = any(len(runs(cover(x))) > 1 for x in nodes)
    if two:
        t2 = _second()
        grammar.extract(t2, g, lex)
        expected(t2, eg, elex, 1)
        discont = True
    if g != eg:
        for f in sorted(set(g) | set(eg)):
            if g.get(f) != eg.get(f):
                return "rule %s: extracted %r, expected %r" % (f, g.get(f), eg.get(f))
    got_lex = dict((w, dict(c)) for w, c in lex.items())
    if got_lex != elex:
        return "lexicon %r, expected %r" % (got_lex, elex)
    # fan-outs: number of blocks of the node and of each child
    for f in g:
        for lin in g[f]:
            fo = grammaranalysis.fan_out(lin)
            if fo[0] != len(lin) or len(fo) != len(f):
                return "fan_out(%r) = %r" % (lin, fo)
            for i in range(1, len(f)):
                if fo[i] != sum(1 for a in lin for (rr, _) in a if rr == i - 1):
                    return "fan_out of right-hand side element %d wrong" % i
    if grammaranalysis.is_contextfree(g) != (not discont):
        return "is_contextfree %r for a %s treebank" % (not discont, "discontinuous" if discont else "continuous")
    # per left-hand label: rule counts = node counts
    per = {}
    for f in g:
        for lin in g[f]:
            per[f[0]] = per.get(f[0], 0) + sum(g[f][lin].values())
    want = {}
    for x in nodes:
        want[x.data['label']] = want.get(x.data['label'], 0) + r
    if two:
        for lab in ("R", "X", "Y"):
            want[lab] = want.get(lab, 0) + 1
    if per != want:
        return "rule counts per label %r, node counts %r" % (per, want)
    return ""


def conds(tier):
    q = tier == "quick"
    cs = []
    for (m, n) in ([(1, 1), (2, 2), (2, 3), (3, 3), (3, 4), (2, 5)] if q else [(1, 1), (2, 2), (2, 3), (3, 3), (3, 4), (4, 4), (3, 5)]):
        sh = ["two"]
        if m * n >= 9:
            sh += ["r"]
        if m * n >= 12:
            sh += ["lp1"]
        if m * n >= 16:
            sh += ["lp2", "rev"]
        cs.append(Cond("extract-m%d-n%d" % (m, n), "harness.c06:extract",
                       e1_params(m, n) + [P("r", "int", 1, 4 if not q else 3), P("two", "bool"), P("rev", "bool"), P("ly", "bool")],
                       fixed={"m": m, "n": n}, pre=[e1_wf_expr(m, n), "not ly or (%d >= 3 and two and not rev)" % m], shard=sh, timeout=600 if q else 3000, functions=FUNCS))
    return cs
