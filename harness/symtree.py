"""Symbolic tree inputs (DESIGN.md §3.1) and the independent observation of trees (§3.2).

Trees are always built through the public constructor trees.Tree, never through
the readers, and always observed through the raw .children/.parent/.data
attributes, never through trees.children/terminals/preorder.
"""
from trees import trees
from vlib.cond import P


# ----------------------------------------------------------------------------- E1
def e1_params(m, n, prefix=""):
    """Parameters of the shape encoding E1(m, n): ip<i> in [0,i) parent of constituent i (1 <= i < m),
    lp<j> in [0,m) parent of token j (1 <= j <= n)."""
    ps = []
    for i in range(1, m):
        ps.append(P("%sip%d" % (prefix, i), "int", 0, i))
    for j in range(1, n + 1):
        ps.append(P("%slp%d" % (prefix, j), "int", 0, m))
    return ps


def e1_get(kw, m, n, prefix=""):
    ip = [kw["%sip%d" % (prefix, i)] for i in range(1, m)]
    lp = [kw["%slp%d" % (prefix, j)] for j in range(1, n + 1)]
    return ip, lp


def e1_wf_expr(m, n, prefix=""):
    """Precondition text: every constituent has at least one child (uses the harness module alias _h)."""
    ip = ", ".join("%sip%d" % (prefix, i) for i in range(1, m))
    lp = ", ".join("%slp%d" % (prefix, j) for j in range(1, n + 1))
    return "_h.wf(%d, %d, [%s], [%s])" % (m, n, ip, lp)


def wf(m, n, ip, lp):
    for i in range(m):
        has = False
        for k in range(i + 1, m):
            if ip[k - 1] == i:
                has = True
        for j in range(n):
            if lp[j] == i:
                has = True
        if not has:
            return False
    return True


def mknode(label, edge="--", morph="--", lemma="--"):
    t = trees.Tree(trees.make_node_data())
    t.data['label'] = label
    t.data['edge'] = edge
    t.data['morph'] = morph
    t.data['lemma'] = lemma
    return t


def mkleaf(word, pos, num, edge="--", morph="--", lemma="--"):
    t = mknode(pos, edge, morph, lemma)
    t.data['word'] = word
    t.data['num'] = num
    return t


def attach(parent, child, rev=False):
    child.parent = parent
    if rev:
        parent.children.insert(0, child)
    else:
        parent.children.append(child)


def build_e1(m, n, ip, lp, labels=None, words=None, pos=None, edges=None, rev=False, sid=1,
             nums=None, lemma="--", morph="--"):
    """Build the E1 tree.  Returns (constituents, leaves); constituents[0] is the root."""
    nodes = []
    for i in range(m):
        lab = labels[i] if labels else ("VROOT" if i == 0 else "X%d" % i)
        nodes.append(mknode(lab, edges[i] if edges else "--", morph, lemma))
    nodes[0].data['sid'] = sid
    for i in range(1, m):
        attach(nodes[ip[i - 1]], nodes[i], rev)
    leaves = []
    for j in range(n):
        leaf = mkleaf(words[j] if words else "w%d" % (j + 1), pos[j] if pos else "P%d" % (j + 1),
                      nums[j] if nums else j + 1, edges[m + j] if edges else "--", morph, lemma)
        attach(nodes[lp[j]], leaf, rev)
        leaves.append(leaf)
    return nodes, leaves


# ----------------------------------------------------------------------------- observation
def cover(t):
    """sorted token numbers below t (raw attributes only)"""
    if not t.children:
        return [t.data['num']]
    r = []
    for c in t.children:
        r.extend(cover(c))
    return sorted(r)


def kids(t):
    """children ordered by leftmost covered token (raw attributes only)"""
    return sorted(t.children, key=lambda c: cover(c)[0])


def all_nodes(root):
    out = []
    stack = [root]
    while stack:
        t = stack.pop()
        out.append(t)
        stack.extend(t.children)
    return out


def wellformed(root, nmin=1):
    """'' if root is the root of a well-formed tree, else the reason."""
    if root is None:
        return "no tree returned"
    if root.parent is not None:
        return "returned node has a parent (not the root)"
    seen = []
    stack = [root]
    leaves = []
    steps = 0
    while stack:
        t = stack.pop()
        steps += 1
        if steps > 500:
            return "cycle or runaway structure"
        for s in seen:
            if s is t:
                return "node reachable twice"
        seen.append(t)
        for c in t.children:
            if c.parent is not t:
                return "child.parent does not point to the node listing it as child"
            stack.append(c)
        if not t.children:
            if 'num' not in t.data or t.data.get('word') is None:
                return "childless constituent %r" % (t.data.get('label'),)
            leaves.append(t)
    nums = sorted(l.data['num'] for l in leaves)
    if len(nums) < nmin:
        return "no tokens"
    if nums != list(range(1, len(nums) + 1)):
        return "token numbers %s are not 1..n" % (nums,)
    return ""


def model(t, fields=("label",), leaf_fields=("label", "word")):
    """Immutable model: constituents (fields..., kids), leaves (fields..., num); kids ordered by leftmost token."""
    if not t.children:
        return tuple(t.data.get(f) for f in leaf_fields) + (t.data.get('num'),)
    return tuple(t.data.get(f) for f in fields) + (tuple(model(c, fields, leaf_fields) for c in kids(t)),)


def tokens(root, fields=("word", "label")):
    """token sequence in sentence order"""
    ls = [t for t in all_nodes(root) if not t.children]
    ls.sort(key=lambda t: t.data['num'])
    return [tuple(t.data.get(f) for f in fields) for t in ls]


def leaves_of(root):
    ls = [t for t in all_nodes(root) if not t.children]
    ls.sort(key=lambda t: t.data['num'])
    return ls


def constituents(root):
    return [t for t in all_nodes(root) if t.children]


def label_multiset(root):
    return sorted(t.data['label'] for t in constituents(root))


def runs(nums):
    """maximal runs of consecutive integers in a sorted list"""
    out = []
    for x in nums:
        if out and out[-1][-1] + 1 == x:
            out[-1].append(x)
        else:
            out.append([x])
    return out


def show(t):
    """bracket rendering for messages"""
    if not t.children:
        return "(%s %s:%s)" % (t.data.get('label'), t.data.get('word'), t.data.get('num'))
    return "(%s %s)" % (t.data.get('label'), " ".join(show(c) for c in kids(t)))


# ----------------------------------------------------------------------------- E2
def skeletons(mmax, n):
    """All E1 shapes with <= mmax constituents and exactly n tokens, up to renaming of tokens
    (lp non-decreasing): used when the token positions themselves are symbolic."""
    import itertools
    out = []
    for m in range(1, mmax + 1):
        for ip in itertools.product(*[range(i) for i in range(1, m)]):
            for lp in itertools.combinations_with_replacement(range(m), n):
                if wf(m, n, list(ip), list(lp)):
                    out.append((m, list(ip), list(lp)))
    return out


def pos_params(n, lo=None, hi=None):
    return [P("p%d" % j, "int", lo, hi) for j in range(1, n + 1)]


def distinct_expr(n):
    return " and ".join("p%d != p%d" % (a, b) for a in range(1, n + 1) for b in range(a + 1, n + 1)) or "True"
