"""C01 Readers decode every well-formed treebank file faithfully."""
from vlib.cond import Cond, P
from trees import trees, treeinput
from harness import stubs
from harness.symtree import e1_params, e1_get, e1_wf_expr, wf, wellformed
from harness.formats import (spec_e1, spec_of_tree, span, spec_tokens, spec_nodes, spec_gapdeg, show, paren_names,
                             enc_export, enc_brackets, enc_tiger)

FUNCS = ["treeinput.bracket_lexer", "treeinput.brackets", "treeinput.discobrackets", "treeinput.export",
         "treeinput.export_parse_line", "treeinput.export_build_tree", "treeinput.tigerxml",
         "treeinput.tigerxml_build_tree", "trees.parse_label", "trees.replace_chars", "misc.gunzip"]
ASSUMPTIONS = [
    "files live in the in-memory file system (stubs: a file is a byte string, text mode = real codec, read(1) char-wise)",
    "automaton: the input is a sequence of k token classes from '(' ')' ' ' and a label/word token (token i is spelled t<i>); "
    "reference = a recursive-descent recogniser of: group := '(' ws* [label] ( (ws* group)+ ws* | ws+ word ws* ) ')' with the "
    "label optional only for the root when a group follows (PTB empty root), and, with brackets_emptypos, '(' ws* word ')'",
    "structured files are produced by the harness's own encoders (harness/formats.py) from a symbolic E1 tree plus a fixed "
    "second sentence; fields from small alphabets",
    "gzip sources are served through stubs of gzip.open/tempfile with the real zlib codec",
]
OUTSIDE = ["material between groups and a last group cut off by end of file (the reader skips the former and drops the latter)",
           "more than two sentences", "malformed export / XML input (the property demands rejection only for bracket groups)",
           "whitespace between a label and ')' under brackets_emptypos"]


# ----------------------------------------------------------------------------- (a) automaton
def ref_groups(toks, emptypos):
    """Reference reading of a token list [(class, text)]: returns (complete groups, cut_off) where each group is
    ('ok', spec) or ('bad',); classes: '(' ')' 'w' (whitespace) 't' (label/word)."""
    groups = []
    i = 0
    n = len(toks)
    while i < n:
        if toks[i][0] != "(":
            i += 1
            continue
        # find the matching bracket
        depth = 0
        j = i
        end = None
        while j < n:
            if toks[j][0] == "(":
                depth += 1
            elif toks[j][0] == ")":
                depth -= 1
                if depth == 0:
                    end = j
                    break
            j += 1
        if end is None:
            return groups, True
        seg = toks[i:end + 1]
        cnt = [0]
        try:
            spec, p = _node(seg, 0, True, emptypos, cnt)
            if p != len(seg):
                raise ValueError("trailing")
            groups.append(("ok", spec))
        except _Unclear:
            groups.append(("unclear",))
        except ValueError:
            groups.append(("bad",))
        i = end + 1
    return groups, False


class _Unclear(Exception):
    """the group contains '(' label whitespace ')' under brackets_emptypos: not covered by the claim"""


def _skip(seg, p):
    while p < len(seg) and seg[p][0] == "w":
        p += 1
    return p


def _node(seg, p, root, emptypos, cnt):
    if p >= len(seg) or seg[p][0] != "(":
        raise ValueError("(")
    p += 1
    p = _skip(seg, p)
    label = None
    if p < len(seg) and seg[p][0] == "t":
        label = seg[p][1]
        p += 1
    elif not (root and p < len(seg) and seg[p][0] == "("):
        raise ValueError("label")
    if label is not None and p < len(seg) and seg[p][0] == ")":
        if not emptypos:
            raise ValueError("empty pos")
        cnt[0] += 1
        return ("T", label, "EMPTY", "--", None, "--", cnt[0]), p + 1
    q = _skip(seg, p)
    if emptypos and label is not None and q > p and q < len(seg) and seg[q][0] == ")":
        raise _Unclear()
    if q < len(seg) and seg[q][0] == "t":
        if q == p or label is None:
            raise ValueError("word without whitespace or label")
        word = seg[q][1]
        q = _skip(seg, q + 1)
        if q >= len(seg) or seg[q][0] != ")":
            raise ValueError(")")
        cnt[0] += 1
        return ("T", word, label, "--", None, "--", cnt[0]), q + 1
    ch = []
    p = q
    while p < len(seg) and seg[p][0] == "(":
        c, p = _node(seg, p, False, emptypos, cnt)
        ch.append(c)
        p = _skip(seg, p)
    if not ch or p >= len(seg) or seg[p][0] != ")":
        raise ValueError("children")
    return ("N", "VROOT" if label is None else label, None if label is None else "--", tuple(ch)), p + 1


CLS = ["(", ")", "w", "t"]


def automaton(k, emptypos, firstid, **kw):
    stubs.install()
    toks = []
    for i in range(1, k + 1):
        c = CLS[kw["c%d" % i]]
        toks.append((c, {"(": "(", ")": ")", "w": " ", "t": "t%d" % i}[c]))
    # adjacent label tokens would be lexed as one token: merge them in the reference view
    merged = []
    for c, t in toks:
        if c == "t" and merged and merged[-1][0] == "t":
            merged[-1] = ("t", merged[-1][1] + t)
        elif c == "w" and merged and merged[-1][0] == "w":
            merged[-1] = ("w", merged[-1][1] + t)
        else:
            merged.append((c, t))
    text = "".join(t for _, t in toks)
    stubs.put("in.mrg", text)
    groups, cut = ref_groups(merged, emptypos)
    params = {'quiet': True, 'brackets_firstid': firstid}
    if emptypos:
        params['brackets_emptypos'] = True
    got = []
    err = None
    try:
        for tree in treeinput.brackets("in.mrg", "utf-8", **params):
            got.append(tree)
    except ValueError as e:
        err = e
    exp = []
    bad = False
    for g in groups:
        if g[0] == "unclear":
            return "~"      # outside the claim
        if g[0] == "bad":
            bad = True
            break
        exp.append(g[1])
    if len(got) > len(exp):
        return "%r: %d trees yielded, only %d well-formed groups precede the first ill-formed one" % (text, len(got), len(exp))
    if bad and err is None:
        return "%r: ill-formed group %d was not rejected" % (text, len(exp) + 1)
    if not bad and err is not None and not cut:
        return "%r: well-formed input rejected: %s" % (text, err)
    if len(got) < len(exp):
        return "%r: %d trees yielded for %d well-formed groups" % (text, len(got), len(exp))
    for i, (tree, spec) in enumerate(zip(got, exp)):
        w = wellformed(tree)
        if w:
            return "%r: tree %d not well formed: %s" % (text, i + 1, w)
        if spec_of_tree(tree) != spec:
            return "%r: tree %d decoded as %s, encoded %s" % (text, i + 1, show(spec_of_tree(tree)), show(spec))
        if tree.data.get('sid') != firstid + i:
            return "%r: sentence id %r, expected %r" % (text, tree.data.get('sid'), firstid + i)
    return ""


# ----------------------------------------------------------------------------- (b) structured files
LABELS = ["VROOT", "NP", "S", "PP"]
WORDS = ["a", ",", "``", "<&\"'>", "ä", "#1", "b-c", "(", "x]y"]
WORDS_BR = WORDS + ["1\u00a0000"]      # a token with a no-break space: not whitespace for the bracket lexer
POSS = ["P1", "P2", "$,", "P3"]
EDGES = ["--", "HD", "SB", "OA", "MO", "NK", "AC", "OC", "PD", "CJ"]
# the fixed second sentence carries two words that look like structure in the export format: '#' + digits + more
# (not a node reference) and '%%...' (a comment marker only at the start of a line outside sentences)
S2 = ("N", "VROOT", "--", (("N", "NP", "OA", (("T", "#100days", "Q1", "HD", "lx", "m1", 1), ("T", "%%EOF", "Q3", "NK", "lz", "m3", 3))),
                           ("T", "y", "Q2", "MO", "ly", "m2", 2)))
S2C = ("N", "VROOT", "--", (("N", "NP", "OA", (("T", "x", "Q1", "HD", "lx", "m1", 1), ("T", "y", "Q2", "NK", "ly", "m2", 2))),
                            ("T", "z", "Q3", "MO", "lz", "m3", 3)))


def _first(m, n, kw, wsel, alphabet=None):
    ip, lp = e1_get(kw, m, n)
    alphabet = alphabet or WORDS
    words = [alphabet[(wsel + j) % len(alphabet)] for j in range(n)]
    return spec_e1(m, n, ip, lp, labels=LABELS[:m], words=words, pos=POSS[:n] if n <= 4 else None,
                   edges=EDGES[:m + n], lemmas=["l%d" % j for j in range(n)], morphs=["m%d" % j for j in range(n)])


def _expect(spec, fmt, v4=False):
    """what the reader must deliver for a sentence written in format fmt"""
    def rec(s, top=False):
        if s[0] == "T":
            if fmt == "export":
                return ("T", s[1], s[2], s[3], s[4] if v4 else "--", s[5], s[6])
            if fmt == "tigerxml":
                return ("T", s[1], s[2], s[3], s[4], s[5], s[6])
            return ("T", s[1], s[2], "--", None, "--", s[6])
        ch = tuple(rec(c) for c in s[3])
        if fmt in ("export", "tigerxml"):
            return ("N", s[1], "--" if top else s[2], ch)
        return ("N", s[1], "--", ch)
    return rec(spec, True)


def _read(fmt, name, enc, params):
    out = []
    for tree in getattr(treeinput, fmt)(name, enc, **params):
        out.append(tree)
    return out


def _compare(got, exp_sents, sids, what):
    if len(got) != len(exp_sents):
        return "%s: %d trees for %d sentences" % (what, len(got), len(exp_sents))
    for i, (tree, exp) in enumerate(zip(got, exp_sents)):
        w = wellformed(tree)
        if w:
            return "%s: sentence %d not well formed: %s" % (what, i + 1, w)
        sp = spec_of_tree(tree)
        if sp != exp:
            return "%s: sentence %d decoded as %s, encoded %s" % (what, i + 1, show(sp), show(exp))
        if tree.data.get('sid') != sids[i]:
            return "%s: sentence %d has id %r, expected %r" % (what, i + 1, tree.data.get('sid'), sids[i])
    return ""


def exportfile(m, n, v4, lay, hdr, sidsel, cont, wsel, gz, **kw):
    stubs.install()
    s1 = _first(m, n, kw, wsel)
    sid1 = [0, 7, 12345][sidsel]
    sents = [(sid1, s1), (sid1 + 5, S2)]
    text = enc_export(sents, v4=v4, sep=["\t", "\t\t", "  "][lay], header=hdr, comments=hdr, secedge=(lay == 1), bosextra=hdr)
    name = "c.export.gz" if gz else "c.export"
    (stubs.put_gz if gz else stubs.put)(name, text)
    params = {'quiet': True}
    if cont:
        params['continuous'] = True
    got = _read("export", name, "utf-8", params)
    return _compare(got, [_expect(s, "export", v4) for _, s in sents], [1, 2] if cont else [sid1, sid1 + 5], "export")


def bracketfile(m, n, disco, wo, wk, wc, sp, er, firstid, wsel, **kw):
    stubs.install()
    s1 = _first(m, n, kw, wsel, WORDS_BR)
    if not disco and spec_gapdeg(s1) > 0:
        return "~"       # not representable (excluded by the precondition)
    s2 = S2 if disco else S2C
    sents = [(None, s1), (None, s2)]
    if er:
        sents = [(None, ("N", "VROOT", "--", s[3])) for _, s in sents]
    text = enc_brackets(sents, ws_open=["", " "][wo], ws_kids=["", " ", "\n  "][wk], ws_close=["", " "][wc],
                        sep=["\n", " ", ""][sp], emptyroot=er, disco=disco, fw=paren_names)
    stubs.put("c.mrg", text)
    params = {'quiet': True, 'brackets_firstid': firstid}
    got = _read("discobrackets" if disco else "brackets", "c.mrg", "utf-8", params)

    def pn(s):
        if s[0] == "T":
            return ("T", paren_names(s[1]),) + s[2:]
        return s[:3] + (tuple(pn(c) for c in s[3]),)
    exp = []
    for _, s in sents:
        e = _expect(pn(s), "brackets")
        if er:
            e = ("N", "VROOT", None, e[3])      # PTB empty root: label VROOT, no edge information
        exp.append(e)
    return _compare(got, exp, [firstid, firstid + 1], "discobrackets" if disco else "brackets")


def tigerfile(m, n, ids, xr, pn, pe, pa, se, cont, wsel, enc, **kw):
    stubs.install()
    s1 = _first(m, n, kw, wsel)
    sents = [(7, s1), (12, S2)]
    data = enc_tiger(sents, idstyle=ids, explicit_root=xr, perm_nt=pn, perm_edge=pe, perm_attr=pa, secedge=se,
                     encoding=["utf-8", "iso-8859-1"][enc])
    stubs.MemFS.files["c.xml"] = data
    params = {'quiet': True}
    if cont:
        params['continuous'] = True
    got = _read("tigerxml", "c.xml", "utf-8", params)
    exp = []
    for _, s in sents:
        e = _expect(s, "tigerxml")
        if not xr and len(s[3]) == 1:
            # the VROOT element was omitted: the only root child has no incoming edge, its edge label is not in the file
            c = e[3][0]
            c = (c[:3] + ("--",) + c[4:]) if c[0] == "T" else (c[:2] + ("--",) + c[3:])
            e = ("N", "VROOT", "--", (c,))
        exp.append(e)
    return _compare(got, exp, [1, 2] if cont else [7, 12], "tigerxml")


# ----------------------------------------------------------------------------- (c) option consistency
DLABELS = ["NP", "NP-SBJ", "NP-SBJ-1", "NP=2", "NP-SBJ=2-1", "S-1'", "-NONE-"]
PWORDS = ["a", "(", "-LRB-", "x]y", "{"]


def options(dl, dp, pw, gfs, rp, qt=True):
    """gf_split / replace_parens / quiet have the same effect in export, brackets and TIGER-XML"""
    stubs.install()
    spec = ("N", "VROOT", "--", (("N", DLABELS[dl], "--", (("T", PWORDS[pw], DLABELS[dp], "--", "--", "--", 1),
                                                            ("T", "b", "P2", "--", "--", "--", 2))),))
    params = {'quiet': True} if qt else {}
    if gfs:
        params['gf_split'] = True
    if rp:
        params['replace_parens'] = True
    stubs.put("c.export", enc_export([(1, spec)]))
    stubs.put("c.mrg", enc_brackets([(None, spec)], fw=paren_names if PWORDS[pw] in ("(", "{", "x]y") else None))
    stubs.MemFS.files["c.xml"] = enc_tiger([(1, spec)])
    res = {}
    for fmt, name in (("export", "c.export"), ("brackets", "c.mrg"), ("tigerxml", "c.xml")):
        got = _read(fmt, name, "utf-8", dict(params))
        if len(got) != 1:
            return "%s: %d trees" % (fmt, len(got))
        w = wellformed(got[0])
        if w:
            return "%s: %s" % (fmt, w)
        sp = spec_of_tree(got[0])
        np_ = sp[3][0]
        res[fmt] = (np_[1], np_[2], np_[3][0][1], np_[3][0][2], np_[3][0][3])
    # bracket files cannot contain raw parentheses: there the word was written with the documented names already
    bw = res["brackets"]
    if rp or PWORDS[pw] not in ("(", "{", "x]y"):
        if not (res["export"] == res["tigerxml"] == bw):
            return "options %s: export %r, brackets %r, tigerxml %r" % (params, res["export"], bw, res["tigerxml"])
    else:
        if res["export"] != res["tigerxml"] or res["export"][:2] != bw[:2] or res["export"][3:] != bw[3:]:
            return "options %s: export %r, brackets %r, tigerxml %r" % (params, res["export"], bw, res["tigerxml"])
    # and the effect itself: gf_split moves the function off the label (indices stay), replace_parens renames brackets
    lab = DLABELS[dl]
    exp_lab, exp_edge = lab, "--"
    if gfs:
        core = lab[:-1] if lab.endswith("'") else lab
        hm = "'" if lab.endswith("'") else ""
        idx = ""
        import re
        mo = re.search(r"(=\d+)?(-\d+)?$", core)
        idx = mo.group(0)
        core = core[:len(core) - len(idx)]
        i = core.find("-")
        if 0 < i < len(core) - 1:
            exp_lab, exp_edge = core[:i] + idx + hm, core[i + 1:]
        else:
            exp_lab, exp_edge = core + idx + hm, "--"
    if res["export"][:2] != (exp_lab, exp_edge):
        return "gf_split=%r: label/edge %r, expected %r" % (gfs, res["export"][:2], (exp_lab, exp_edge))
    exp_word = paren_names(PWORDS[pw]) if rp else PWORDS[pw]
    if res["export"][2] != exp_word:
        return "replace_parens=%r: word %r, expected %r" % (rp, res["export"][2], exp_word)
    return ""


def cont_ok(m, n, ip, lp, disco):
    if disco:
        return True
    cov = [[] for _ in range(m)]
    for j in range(n):
        i = lp[j]
        while True:
            cov[i].append(j)
            if i == 0:
                break
            i = ip[i - 1]
    for c in cov:
        c.sort()
        for a, b in zip(c, c[1:]):
            if b != a + 1:
                return False
    return True


def conds(tier):
    q = tier == "quick"
    cs = []
    for k in [3, 4, 5, 6]:
        sh = ["emptypos"] + (["c1", "c2"] if k >= 5 else []) + (["c3"] if k >= 7 else []) + (["c4"] if k >= 8 else [])
        cs.append(Cond("automaton-k%d" % k, "harness.c01:automaton",
                       [P("c%d" % i, "int", 0, 4) for i in range(1, k + 1)] + [P("emptypos", "bool"), P("firstid", "int", None, None)],
                       fixed={"k": k}, shard=sh, timeout=600 if q else 3000, functions=FUNCS[:2],
                       note="all 4^%d class sequences; brackets_firstid: unbounded symbolic integer" % k))
    shapes = [(1, 1), (1, 3), (2, 2), (2, 3), (3, 3)] if q else [(1, 1), (1, 3), (2, 1), (2, 2), (2, 3), (3, 3), (3, 4)]
    for (m, n) in shapes:
        big = m * n >= 9
        tie = q or m * n > 6        # large shapes: option selectors tied to each other (every value of every selector still occurs)
        ipn = ", ".join("ip%d" % i for i in range(1, m))
        lpn = ", ".join("lp%d" % j for j in range(1, n + 1))
        cs.append(Cond("export-m%d-n%d" % (m, n), "harness.c01:exportfile",
                       e1_params(m, n) + [P("v4", "bool"), P("lay", "int", 0, 3), P("hdr", "bool"), P("sidsel", "int", 0, 3),
                                          P("cont", "bool"), P("wsel", "int", 0, len(WORDS)), P("gz", "bool")],
                       fixed={"m": m, "n": n}, pre=[e1_wf_expr(m, n)] + (["sidsel == lay and wsel == (lay * 3 + (5 if v4 else 0)) % 9 and gz == hdr"] if tie else
                                                                    ["wsel < 3 or lay == 0"]),
                       shard=["v4", "lay"] + (["hdr", "cont"] if not tie else []) + (["lp1"] if big else []) + (["lp2"] if m * n >= 16 else []),
                       timeout=600 if q else 3000, functions=FUNCS[3:6] + FUNCS[8:]))
        cs.append(Cond("brackets-m%d-n%d" % (m, n), "harness.c01:bracketfile",
                       e1_params(m, n) + [P("disco", "bool"), P("wo", "int", 0, 2), P("wk", "int", 0, 3), P("wc", "int", 0, 2),
                                          P("sp", "int", 0, 3), P("er", "bool"), P("firstid", "int", None, None), P("wsel", "int", 0, len(WORDS_BR))],
                       fixed={"m": m, "n": n},
                       pre=[e1_wf_expr(m, n), "_h.cont_ok(%d, %d, [%s], [%s], disco)" % (m, n, ipn, lpn), "not disco or (wk < 2 and sp == 0)"] +
                       (["wsel == (wk * 4 + wo * 3 + (7 if er else 0)) % 10 and wc == wo and sp == (0 if disco else wk)"] if tie else ["wsel < 3 or (wo == 0 and wc == 0)"]),
                       shard=["disco", "wk"] + (["er", "wo"] if not tie else []) + (["lp1"] if big else []) + (["lp2"] if m * n >= 16 else []),
                       skip=lambda sf: sf["disco"] and sf["wk"] >= 2, timeout=600 if q else 3000, functions=FUNCS[:3]))
        cs.append(Cond("tiger-m%d-n%d" % (m, n), "harness.c01:tigerfile",
                       e1_params(m, n) + [P("ids", "int", 0, 3), P("xr", "bool"), P("pn", "bool"), P("pe", "bool"), P("pa", "bool"),
                                          P("se", "bool"), P("cont", "bool"), P("wsel", "int", 0, len(WORDS)), P("enc", "int", 0, 2)],
                       fixed={"m": m, "n": n},
                       pre=[e1_wf_expr(m, n)] + (["pe == pn and pa == xr and se == cont and wsel == (ids * 3 + (4 if pn else 0)) % 9 and enc == (1 if se else 0)"] if tie else
                                                ["wsel < 3 or (ids == 0 and not se)", "enc == 0 or not pa"]),
                       shard=["ids", "xr"] + (["pn", "cont"] if not tie else []) + (["lp1"] if big else []) + (["lp2"] if m * n >= 16 else []),
                       timeout=600 if q else 3000, functions=FUNCS[6:8]))
    cs.append(Cond("options", "harness.c01:options",
                   [P("dl", "int", 0, len(DLABELS)), P("dp", "int", 0, len(DLABELS)), P("pw", "int", 0, len(PWORDS)),
                    P("gfs", "bool"), P("rp", "bool"), P("qt", "bool")], pre=(["dp == 0 or dl == 0", "qt or pw == dl % 5"] if q else []),
                   shard=["gfs", "rp"], timeout=600 if q else 2400, functions=FUNCS[1:2] + FUNCS[3:]))
    return cs
