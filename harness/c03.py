"""C03 Any-to-any conversion through the command line is total and lossless."""
import argparse
import importlib.machinery
import importlib.util
import os
import sys as _realsys
from vlib.cond import Cond, P
from trees import transform, treeinput
from harness import stubs, c01, c02
from harness.symtree import e1_params, e1_get, e1_wf_expr, wf, wellformed
from harness.formats import (spec_of_tree, spec_gapdeg, spec_tokens, show, paren_names, enc_export, enc_brackets,
                             enc_tiger, dec_export, dec_brackets, dec_tiger, dec_terminals)

FUNCS = ["transform.run", "misc.options_dict", "misc.gunzip", "treetools:main"] + c01.FUNCS[:8] + c02.FUNCS[:10]
ASSUMPTIONS = [
    "the command is executed in-process (transform.run / the script's main()) on the in-memory file system stubs; text mode = "
    "the real codec of the given encoding; gzip sources through stubs of gzip.open/tempfile with the real zlib codec; "
    "directories = sets of in-memory names",
    "expected content = (reference writer semantics of C02) o (reference reader semantics of C01) applied to the source "
    "sentences, i.e. everything both formats carry; corpora are written by the harness encoders",
]
OUTSIDE = ["process exit status and real files", "corpora of more than two sentences", "larger trees"]
SF = ["export", "brackets", "discobrackets", "tigerxml"]
DF = ["export", "brackets", "discobrackets", "tigerxml", "terminals"]
ENCS = ["utf-8", "latin-1", "utf-16"]
XMLENC = ["utf-8", "iso-8859-1", "utf-16"]


def _encode(fmt, sents, enc, er=False):
    """source corpus bytes in format fmt (er: PTB-style empty root label in the bracket formats)"""
    if fmt == "export":
        return enc_export([(sid, s) for sid, s in sents]).encode(ENCS[enc])
    if fmt == "brackets":
        return enc_brackets(sents, fw=paren_names, emptyroot=er).encode(ENCS[enc])
    if fmt == "discobrackets":
        return enc_brackets(sents, disco=True, fw=paren_names, emptyroot=er).encode(ENCS[enc])
    return enc_tiger(sents, encoding=XMLENC[enc])


def _after_read(spec, fmt, er=False):
    """reference reader semantics (what the tool has in memory after reading fmt)"""
    if fmt in ("brackets", "discobrackets"):
        def pn(s):
            if s[0] == "T":
                return ("T", paren_names(s[1]),) + s[2:]
            return s[:3] + (tuple(pn(c) for c in s[3]),)
        e = c01._expect(pn(spec), "brackets")
        if er:
            e = ("N", "VROOT", None, e[3])      # empty root label: VROOT without edge information
        return e
    return c01._expect(spec, fmt)


def _decode(fmt, data, enc):
    if fmt == "tigerxml":
        return dec_tiger(data)
    text = data.decode(ENCS[enc])
    if fmt == "export":
        return dec_export(text)
    if fmt == "brackets":
        return dec_brackets(text)
    if fmt == "discobrackets":
        return dec_brackets(text, disco=True)
    return [(None, t) for t in dec_terminals(text)], ""


def _args(src, dest, sf, df, se, de, dest_opts=()):
    return argparse.Namespace(src=src, dest=dest, counting=100, trans=[], params=[], src_format=sf, src_enc=ENCS[se],
                              src_opts=["quiet"], dest_format=df, dest_enc=ENCS[de], dest_opts=list(dest_opts), split="")


def _check_file(name, fmt, enc, mem, sids, what, four=False):
    """the file decodes (harness decoder) to the reference writer semantics of the in-memory sentences `mem`"""
    if name not in stubs.MemFS.files:
        return "%s: no output file %s" % (what, name)
    try:
        if fmt == "export" and four:
            sents, prob = dec_export(stubs.MemFS.files[name].decode(ENCS[enc]), v4=True)
        else:
            sents, prob = _decode(fmt, stubs.MemFS.files[name], enc)
    except UnicodeError as e:
        return "%s: output is not valid %s: %s" % (what, ENCS[enc], e)
    if prob:
        return "%s: %s output does not decode: %s" % (what, fmt, prob)
    if len(sents) != len(mem):
        return "%s: %d sentences in the %s file, %d in the source" % (what, len(sents), fmt, len(mem))
    for i, ((gsid, got), spec) in enumerate(zip(sents, mem)):
        if fmt == "terminals":
            want = [(t[1], None) for t in spec_tokens(spec)]
            if got != want:
                return "%s: sentence %d written as %r, expected %r" % (what, i + 1, got, want)
            continue
        exp = c02._expect(spec, fmt, {'export_four': True} if (four and fmt == "export") else {}, {})
        if fmt == "tigerxml":
            got = ("N", got[1], None, got[3])
        if got != exp:
            return "%s: sentence %d decodes to %s, expected %s" % (what, i + 1, show(got), show(exp))
        if fmt in ("export", "tigerxml") and gsid != sids[i]:
            return "%s: sentence %d has id %r, expected %r" % (what, i + 1, gsid, sids[i])
    return ""


def _own_reader(name, fmt, enc, mem_after, sids, what):
    """the tool's own reader accepts the file and delivers the reference reading of what was written"""
    try:
        got = list(getattr(treeinput, fmt)(name, ENCS[enc], quiet=True))
    except Exception as e:      # noqa
        return "%s: own %s reader fails on own output: %s: %s" % (what, fmt, type(e).__name__, e)
    if len(got) != len(mem_after):
        return "%s: own reader yields %d trees for %d sentences" % (what, len(got), len(mem_after))
    for i, (t, exp) in enumerate(zip(got, mem_after)):
        w = wellformed(t)
        if w:
            return "%s: own reader: sentence %d: %s" % (what, i + 1, w)
        if spec_of_tree(t) != exp:
            return "%s: own reader reads sentence %d as %s, expected %s" % (what, i + 1, show(spec_of_tree(t)), show(exp))
        if t.data.get('sid') != sids[i]:
            return "%s: own reader: sentence %d has id %r, expected %r" % (what, i + 1, t.data.get('sid'), sids[i])
    return ""


def _written(spec, fmt):
    """spec of the content of a file written in fmt from the in-memory sentence spec (reference writer semantics),
    re-expressed as a source spec for the next hop"""
    e = c02._expect(spec, fmt, {}, {})

    def fill(s, top=False):
        if s[0] == "T":
            return ("T", s[1], s[2], s[3], s[4], s[5], s[6])
        return ("N", s[1], "--" if top and s[2] is None else s[2], tuple(fill(c) for c in s[3]))
    return fill(e, True)


def _written4(spec):
    e = c02._expect(spec, "export", {'export_four': True}, {})

    def fill(s, top=False):
        if s[0] == "T":
            return s
        return ("N", s[1], "--" if top and s[2] is None else s[2], tuple(fill(c) for c in s[3]))
    return fill(e, True)


def convert(m, n, sf, df, se, de, mode, wsel, back, four=False, er=False, gfo=False, **kw):
    """A -> B (and back to A) through transform.run; mode 0 plain file, 1 directory, 2 gzip source"""
    stubs.install()
    s1 = c01._first(m, n, kw, wsel)
    src_f, dst_f = SF[sf], DF[df]
    disc = spec_gapdeg(s1) > 0
    if disc and (src_f == "brackets" or dst_f == "brackets"):
        return "~"       # not representable (excluded by the precondition)
    s2 = c01.S2 if (src_f != "brackets" and dst_f != "brackets") else c01.S2C
    sents = [(7, s1), (0, s2)]          # the second sentence carries the id 0
    er = er and src_f in ("brackets", "discobrackets")
    gfo = gfo and dst_f in ("brackets", "discobrackets") and not four
    data = _encode(src_f, [(sid if src_f in ("export", "tigerxml") else None, s) for sid, s in sents], se, er)
    sids_src = [7, 0] if src_f in ("export", "tigerxml") else [1, 2]
    if mode == 1:
        stubs.mkdir("corp")
        stubs.MemFS.files["corp/a"] = data
        src, dest, out = "corp", "unused", "corp/a.dest"
    elif mode == 2:
        import gzip
        stubs.MemFS.files["a.gz"] = gzip.compress(data)
        src, dest, out = "a.gz", "b.out", "b.out"
    else:
        stubs.MemFS.files["a.in"] = data
        src, dest, out = "a.in", "b.out", "b.out"
    four = four and dst_f == "export"
    try:
        transform.run(_args(src, dest, src_f, dst_f, se, de, ["export_four"] if four else (["gf"] if gfo else [])))
    except Exception as e:      # noqa
        return "conversion %s -> %s%s failed: %s: %s" % (src_f, dst_f, " (gf)" if gfo else "", type(e).__name__, e)
    mem = [_after_read(s, src_f, er) for _, s in sents]
    if gfo:
        # trees from the bracket readers carry no function labels ('--' or none): option gf adds nothing
        return _check_file(out, dst_f, de, mem, sids_src, "%s -> %s (gf)" % (src_f, dst_f))
    r = _check_file(out, dst_f, de, mem, sids_src, "%s -> %s%s" % (src_f, dst_f, " (export_four)" if four else ""), four)
    if r:
        return r
    if dst_f == "terminals":
        return ""
    if four:
        # the lemma column is part of the file now: the tool's own reader must deliver it
        own = list(treeinput.export(out, ENCS[de], quiet=True))
        for t, s in zip(own, mem):
            exp4 = c01._expect(_written4(s), "export", True)
            if spec_of_tree(t) != exp4:
                return "%s -> export (export_four): own reader reads %s, expected %s" % (src_f, show(spec_of_tree(t)), show(exp4))
        return ""
    written = [_written(s, dst_f) for s in mem]
    sids_b = sids_src if dst_f in ("export", "tigerxml") else [1, 2]
    r = _own_reader(out, dst_f, de, [_after_read(s, dst_f) for s in written], sids_b, "%s -> %s" % (src_f, dst_f))
    if r:
        return r
    if not back:
        return ""
    # second hop: B -> A
    try:
        transform.run(_args(out, "c.out", dst_f, src_f, de, se))
    except Exception as e:      # noqa
        return "conversion back %s -> %s failed: %s: %s" % (dst_f, src_f, type(e).__name__, e)
    mem2 = [_after_read(s, dst_f) for s in written]
    return _check_file("c.out", src_f, se, mem2, sids_b, "%s -> %s -> %s" % (src_f, dst_f, src_f))


def chain(m, n, sf, df, cf, wsel, **kw):
    """A -> B -> C"""
    stubs.install()
    s1 = c01._first(m, n, kw, wsel)
    fa, fb, fc = SF[sf], SF[df], DF[cf]
    if spec_gapdeg(s1) > 0 and "brackets" in (fa, fb, fc):
        return "~"
    s2 = c01.S2C if "brackets" in (fa, fb, fc) else c01.S2
    sents = [(7, s1), (12, s2)]
    stubs.MemFS.files["a.in"] = _encode(fa, [(sid if fa in ("export", "tigerxml") else None, s) for sid, s in sents], 0)
    sids = [7, 12] if fa in ("export", "tigerxml") else [1, 2]
    try:
        transform.run(_args("a.in", "b.out", fa, fb, 0, 0))
        transform.run(_args("b.out", "c.out", fb, fc, 0, 0))
    except Exception as e:      # noqa
        return "chain %s -> %s -> %s failed: %s: %s" % (fa, fb, fc, type(e).__name__, e)
    mem = [_after_read(s, fa) for _, s in sents]
    written = [_written(s, fb) for s in mem]
    sids_b = sids if fb in ("export", "tigerxml") else [1, 2]
    mem2 = [_after_read(s, fb) for s in written]
    return _check_file("c.out", fc, 0, mem2, sids_b, "%s -> %s -> %s" % (fa, fb, fc))


_MAIN = {}


def _main():
    if "f" not in _MAIN:
        path = os.path.join(os.environ.get("VERIF_REPO", "/repo"), "treetools")
        loader = importlib.machinery.SourceFileLoader("treetools_script", path)
        spec = importlib.util.spec_from_loader("treetools_script", loader)
        mod = importlib.util.module_from_spec(spec)
        loader.exec_module(mod)
        _MAIN["f"] = mod.main
    return _MAIN["f"]


def argv(sf, df, de):
    """the same conversion through the script's main(): argument parsing and dispatch"""
    stubs.install()
    sents = [(7, c01.S2C), (12, c01.S2C)]
    src_f, dst_f = SF[sf], DF[df]
    stubs.MemFS.files["a.in"] = _encode(src_f, [(sid if src_f in ("export", "tigerxml") else None, s) for sid, s in sents], 0)
    old = _realsys.argv
    _realsys.argv = ["treetools", "transform", "a.in", "b.out", "--src-format", src_f, "--dest-format", dst_f,
                     "--dest-enc", ENCS[de], "--src-opts", "quiet"]
    try:
        _main()()
    except SystemExit as e:
        return "treetools exited with %r" % (e.code,)
    except Exception as e:      # noqa
        return "treetools failed: %s: %s" % (type(e).__name__, e)
    finally:
        _realsys.argv = old
    mem = [_after_read(s, src_f) for _, s in sents]
    return _check_file("b.out", dst_f, de, mem, [7, 12] if src_f in ("export", "tigerxml") else [1, 2], "main()")


def repr_ok(m, n, ip, lp, sf, df):
    if SF[sf] == "brackets" or DF[df] == "brackets":
        return c01.cont_ok(m, n, ip, lp, False)
    return True


def chain_ok(m, n, ip, lp, sf, df, cf):
    if "brackets" in (SF[sf], SF[df], DF[cf]):
        return c01.cont_ok(m, n, ip, lp, False)
    return True


def conds(tier):
    q = tier == "quick"
    cs = []
    for (m, n) in ([(2, 2), (2, 3)] if q else [(2, 2), (2, 3), (3, 3), (3, 4)]):
        ipn = ", ".join("ip%d" % i for i in range(1, m))
        lpn = ", ".join("lp%d" % j for j in range(1, n + 1))
        cs.append(Cond("convert-m%d-n%d" % (m, n), "harness.c03:convert",
                       e1_params(m, n) + [P("sf", "int", 0, 4), P("df", "int", 0, 5), P("se", "int", 0, 3), P("de", "int", 0, 3),
                                          P("mode", "int", 0, 3), P("wsel", "int", 0, 9), P("back", "bool"), P("four", "bool"), P("er", "bool"), P("gfo", "bool")],
                       fixed={"m": m, "n": n},
                       pre=[e1_wf_expr(m, n), "_h.repr_ok(%d, %d, [%s], [%s], sf, df)" % (m, n, ipn, lpn), "not four or (df == 0 and mode == 0 and not back)",
                            "(not er and not gfo) or (er and gfo and sf in (1, 2) and df in (1, 2) and mode == 0 and not back and not four)"] +
                       (["de == (se + mode) % 3 and wsel == (se + df + mode * 3) % 9 and back == (mode == 0 and not four and not er)"] if (q or m * n > 4) else
                        ["wsel == (se * 3 + de + mode) % 9"]),
                       shard=["sf", "df"] + ([] if (q or m * n > 4) else ["se", "mode"]) + (["lp1"] if m * n >= 9 else []),
                       timeout=600 if q else 3000, functions=FUNCS))
    for (m, n) in ([(2, 2)] if q else [(2, 2), (2, 3), (3, 3)]):
        ipn = ", ".join("ip%d" % i for i in range(1, m))
        lpn = ", ".join("lp%d" % j for j in range(1, n + 1))
        cs.append(Cond("chain-m%d-n%d" % (m, n), "harness.c03:chain",
                       e1_params(m, n) + [P("sf", "int", 0, 4), P("df", "int", 0, 4), P("cf", "int", 0, 5), P("wsel", "int", 0, 9)],
                       fixed={"m": m, "n": n},
                       pre=[e1_wf_expr(m, n), "_h.chain_ok(%d, %d, [%s], [%s], sf, df, cf)" % (m, n, ipn, lpn)] +
                       (["wsel == (sf + cf + 4) % 9"] if (q or m * n > 4) else ["wsel % 3 == 0"]),
                       shard=["sf", "df"], timeout=600 if q else 3000, functions=FUNCS))
    cs.append(Cond("argv", "harness.c03:argv", [P("sf", "int", 0, 4), P("df", "int", 0, 5), P("de", "int", 0, 3)],
                   shard=["sf"], timeout=400, functions=FUNCS[:4]))
    return cs
