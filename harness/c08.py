"""C08 Rule and lexicon counts are conserved through extraction and binarization."""
from vlib.cond import Cond, P
from trees import grammar, grammaranalysis
from harness.symtree import e1_params, e1_get, e1_wf_expr, wf, build_e1, all_nodes

FUNCS = ["grammar.extract", "grammar.binarize", "grammar.binarize_rule", "grammar._add_count",
         "grammar.MarkovLabelGenerator.next", "grammar.reordering_optimal"]
ASSUMPTIONS = ["grammar skeleton = rules extracted (by the real extract) from an E1(m, n) tree and from the same tree under "
               "another root label, so that every lower rule occurs under two vertical contexts; every (rule, linearization, "
               "vertical context) count is then replaced by an unbounded symbolic positive integer",
               "the node/token side of the conservation law (extraction counts = node counts) is property C06; here the "
               "counts are arbitrary, so the law is checked as: totals per original symbol unchanged, and for every symbol "
               "(left-hand total - count-weighted right-hand occurrences) unchanged by binarization (0 for @-symbols)"]
OUTSIDE = ["grammars from more than two trees", "markovization parameters above the bound"]
NC = 8


def lhs_total(g, sym):
    tot = 0
    for f in g:
        if f[0] == sym:
            for l in g[f]:
                for v in g[f][l]:
                    tot = tot + g[f][l][v]
    return tot


def rhs_total(g, sym):
    tot = 0
    for f in g:
        k = sum(1 for s in f[1:] if s == sym)
        if k:
            for l in g[f]:
                for v in g[f][l]:
                    tot = tot + k * g[f][l][v]
    return tot


def counts(m, n, opt, mk, v, h, nf, r, sp=False, two=False, **kw):
    g, lex = {}, {}
    roots = ("R", "R2") if r else ("R",)
    POS = ["P"] * n if sp else ["P", "P", "Q", "P", "Q", "P", "Q", "P"][:n]
    WORDS = ["a", "b", "a", "b", "a", "b", "a", "b"][:n]
    if two:
        # two different symbolic trees over the same labels: the same rule can occur under vertical contexts that
        # differ only in the fan-out of an ancestor
        roots = ("R", "R")
        shapes = [([kw["%sip%d" % (p, i)] for i in range(1, m)], [kw["%slp%d" % (p, j)] for j in range(1, n + 1)]) for p in ("a", "b")]
    else:
        ip, lp = e1_get(kw, m, n)
        shapes = [(ip, lp)] * len(roots)
    for lab, (ip, lp) in zip(roots, shapes):
        nodes, leaves = build_e1(m, n, ip, lp, labels=[lab, "X", "X", "Y"][:m], pos=POS, words=WORDS)
        grammar.extract(nodes[0], g, lex)
    # replace every count by a symbolic one
    cs = [kw["c%d" % i] for i in range(1, NC + 1)]
    k = 0
    for f in sorted(g):
        for l in sorted(g[f]):
            for vert in sorted(g[f][l]):
                g[f][l][vert] = cs[k % NC] + (k // NC)
                k += 1
    mopts = None
    if mk:
        mopts = {'v': v, 'h': h}
        if nf:
            mopts['nofanout'] = True
    b = grammar.binarize(g, reordering=grammar.reordering_optimal if opt else grammar.reordering_none, markov_opts=mopts)
    orig = set(s for f in g for s in f)
    syms = set(s for f in b for s in f)
    for s in sorted(orig):
        if lhs_total(b, s) != lhs_total(g, s):
            return "rules rewriting %s: total %r before, %r after binarization" % (s, lhs_total(g, s), lhs_total(b, s))
        if lhs_total(b, s) - rhs_total(b, s) != lhs_total(g, s) - rhs_total(g, s):
            return "symbol %s: rewrites minus uses changed" % s
    for s in sorted(syms - orig):
        if lhs_total(b, s) != rhs_total(b, s):
            return "binarization symbol %s rewritten %r times but used %r times" % (s, lhs_total(b, s), rhs_total(b, s))
    # lexicon untouched by binarization; its counts equal token counts
    want = {}
    for lab in roots:
        for j in range(n):
            w, p = WORDS[j], POS[j]
            want.setdefault(w, {})
            want[w][p] = want[w].get(p, 0) + 1
    if dict((w, dict(c)) for w, c in lex.items()) != want:
        return "lexicon counts %r, token counts %r" % (lex, want)
    return ""


def conds(tier):
    q = tier == "quick"
    cs = []
    cp = [P("c%d" % i, "int", 1, None) for i in range(1, NC + 1)]
    for (m, n) in ([(1, 3), (1, 5), (1, 6), (2, 3), (2, 4)] if q else [(1, 3), (1, 4), (1, 5), (1, 6), (1, 7), (2, 3), (2, 4)]):
        hi = 3 if q else 4
        ps = e1_params(m, n) + cp + [P("opt", "bool"), P("mk", "bool"), P("v", "int", 0, hi), P("h", "int", 0, hi),
                                     P("nf", "bool"), P("r", "bool"), P("sp", "bool")]
        sh = ["opt", "mk", "v"] + (["h"] if m * n >= 8 else []) + (["lp1"] if m ** n >= 60 else []) + (["nf"] if n >= 5 else [])
        cs.append(Cond("counts-m%d-n%d" % (m, n), "harness.c08:counts", ps, fixed={"m": m, "n": n},
                       pre=[e1_wf_expr(m, n), "mk or (v == 0 and h == 0 and not nf)"], shard=sh,
                       skip=lambda sf: (not sf["mk"]) and bool(sf.get("v", 0) or sf.get("h", 0) or sf.get("nf", False)),
                       timeout=600 if q else 3000, functions=FUNCS, note="counts c1..c8: unbounded symbolic positive integers"))
    from harness.symtree import e1_wf_expr as _wfe
    for (m, n) in [(3, 3)]:
        ps = e1_params(m, n, "a") + e1_params(m, n, "b") + cp + [P("opt", "bool"), P("v", "int", 0, 3), P("h", "int", 0, 2), P("nf", "bool")]
        cs.append(Cond("twotrees-m%d-n%d" % (m, n), "harness.c08:counts", ps,
                       fixed={"m": m, "n": n, "mk": True, "two": True, "r": True, "sp": False},
                       pre=[_wfe(m, n, "a"), _wfe(m, n, "b")] + (["nf and h == 1 and v >= 1 and not opt"] if q else ["nf or h == 1"]),
                       shard=["v", "alp1", "blp1"] + ([] if q else ["opt"]),
                       skip=(lambda sf: sf["v"] == 0) if q else None, timeout=900 if q else 3000, functions=FUNCS,
                       note="two symbolic trees over the same labels; counts unbounded symbolic"))
    return cs
