"""C09 Written grammar and lexicon files decode to exactly the grammar in memory."""
import argparse
import copy
import re
from vlib.cond import Cond, P
from trees import grammar, grammaranalysis, grammaroutput, grammarinput, grammarconst
from harness import stubs
from harness.symtree import e1_params, e1_get, e1_wf_expr, wf, build_e1, cover, runs

FUNCS = ["grammaroutput.rcg", "grammaroutput.pmcfg", "grammaroutput.lopar", "grammarinput.rcg",
         "grammarconst.label_strip_fanout", "grammar.run", "grammar.extract", "grammar.binarize", "misc.grouper"]
ASSUMPTIONS = ["grammars: extracted (real extract) from an E1(m, n) tree r times and from a fixed (continuous) second tree, raw or binarized "
               "(left-to-right, optimal, markov v1 h1); labels R, X, Y (no parentheses, no trailing digit); lexicon words "
               "a, b, \\u00c4 (capitalised non-ASCII), Haus with an ambiguous word (a: P and Q)",
               "files live in the in-memory file system; PMCFG, LoPar and RCG texts are decoded by the harness's own "
               "decoders (function names fun<N>, sequences s<K>, count lines; 'count LHS RHS' lines; predicates "
               "LABEL<fanout>(args))"]
OUTSIDE = ["option values other than present/absent (e.g. lex_in_grammar:0)", "labels with parentheses or a trailing digit", "grammars from more than two distinct trees"]
ENCS = ["utf-8", "latin-1", "utf-16"]
WORDS = ["a", "USA", "Ä", "Haus", "a"] + ["w" + chr(91 + i) for i in range(6, 16)]
POS = ["P", "Q", "P", "Q", "Q"] + ["T" + chr(59 + i) for i in range(6, 16)]
MODES = ["raw", "leftright", "optimal", "markov"]


def norm(g):
    return dict((f, dict((l, sum(g[f][l].values())) for l in g[f])) for f in g)


def normlex(lex):
    return dict((w, dict(c)) for w, c in lex.items())


def make(m, n, ip, lp, r, mode, scale=1):
    g, lex = {}, {}
    for _ in range(r):
        nodes, leaves = build_e1(m, n, ip, lp, labels=["R", "X", "X", "Y"][:m], pos=POS[:n], words=WORDS[:n])
        grammar.extract(nodes[0], g, lex)
    nodes2, _ = build_e1(2, 3, [0], [1, 1, 0], labels=["R", "X"], pos=["P", "Q", "P"], words=["b", "a", "Haus"])
    grammar.extract(nodes2[0], g, lex)
    cf = all(len(runs(cover(x))) == 1 for x in nodes)
    if mode == 1:
        g = grammar.binarize(g, reordering=grammar.reordering_none, markov_opts=None)
    elif mode == 2:
        g = grammar.binarize(g, reordering=grammar.reordering_optimal, markov_opts=None)
    elif mode == 3:
        g = grammar.binarize(g, reordering=grammar.reordering_none, markov_opts={'v': 1, 'h': 1})
    if scale != 1:          # counts of two digits and more
        for f in g:
            for l in g[f]:
                for v in g[f][l]:
                    g[f][l][v] *= scale
        for w in lex:
            for t in lex[w]:
                lex[w][t] *= scale
    return g, lex


def dec_lex(text):
    lex = {}
    for line in text.split("\n"):
        if line == "":
            continue
        word, rest = line.split("\t")
        f = rest.split(" ")
        lex[word] = dict((f[i], int(f[i + 1])) for i in range(0, len(f), 2))
    return lex


def dec_pmcfg(text):
    funs, lins, cnts, seqs = {}, {}, {}, {}
    for line in text.split("\n"):
        f = line.split()
        if not f:
            continue
        if f[0].startswith("fun") and len(f) >= 4 and f[1] == ":" and f[3] == "<-":
            if f[0] in funs:
                raise ValueError("function %s declared twice" % f[0])
            funs[f[0]] = tuple([f[2]] + f[4:])
        elif f[0].startswith("fun") and len(f) >= 2 and f[1] == "=":
            lins[f[0]] = f[2:]
        elif f[0].startswith("fun") and len(f) == 2:
            cnts[f[0]] = int(f[1])
        elif f[0].startswith("s") and len(f) >= 2 and f[1] == "->":
            if f[0] in seqs:
                raise ValueError("sequence %s defined twice" % f[0])
            seqs[f[0]] = tuple((int(x.split(":")[0]), int(x.split(":")[1])) for x in f[2:])
        else:
            raise ValueError("unparsable PMCFG line %r" % line)
    g = {}
    if not (set(funs) == set(lins) == set(cnts)):
        raise ValueError("function without linearization or count")
    for name, func in funs.items():
        lin = tuple(seqs[s] for s in lins[name])
        d = g.setdefault(func, {})
        if lin in d:
            raise ValueError("rule written twice")
        d[lin] = cnts[name]
    return g


def dec_rcg(text):
    g = {}
    for line in text.split("\n"):
        if line == "":
            continue
        f = line.split(" ")
        mo = re.match(r"^C:(\d+)$", f[0])
        if not mo or f[2] != "-->":
            raise ValueError("unparsable RCG line %r" % line)
        count = int(mo.group(1))
        preds = [f[1]] + f[3:]
        func, args = [], []
        for p in preds:
            mo = re.match(r"^(.*?)(\d+)\((.*)\)$", p)
            if not mo:
                raise ValueError("unparsable predicate %r" % p)
            a = [re.findall(r"\[(\d+)\]", x) for x in mo.group(3).split(",")]
            if int(mo.group(2)) != len(a):
                raise ValueError("fan-out suffix %s of %r differs from its %d arguments" % (mo.group(2), p, len(a)))
            func.append(mo.group(1))
            args.append(a)
        where = {}
        for i, a in enumerate(args[1:]):
            for j, arg in enumerate(a):
                if len(arg) != 1:
                    raise ValueError("right-hand-side argument with %d variables" % len(arg))
                where[arg[0]] = (i, j)
        lin = tuple(tuple(where[v] for v in arg) for arg in args[0])
        d = g.setdefault(tuple(func), {})
        d[lin] = d.get(lin, 0) + count
    return g


def split_lexrules(g, words):
    """separate embedded lexical rules (tag -> word) from the grammar"""
    gg, lex = {}, {}
    for f in g:
        if len(f) == 2 and f[1] in words:
            for l, c in g[f].items():
                if l != (((0, 0),),):
                    raise ValueError("lexical rule with linearization %r" % (l,))
                lex.setdefault(f[1], {})[f[0]] = c
        else:
            gg[f] = g[f]
    return gg, lex


def files(m, n, r, mode, fmt, enc, lig, big=False, **kw):
    """write with the real writer, decode with the harness decoder and (rcg) with the tool's own reader"""
    stubs.install()
    ip, lp = e1_get(kw, m, n)
    g, lex = make(m, n, ip, lp, r, mode, 7 if big else 1)
    want_g, want_lex = norm(g), normlex(lex)
    e = ENCS[enc]
    params = {'lex_in_grammar': True} if lig else {}
    name = ["rcg", "pmcfg", "lopar"][fmt]
    cf = grammaranalysis.is_contextfree(g)
    try:
        getattr(grammaroutput, name)(copy.deepcopy(g), copy.deepcopy(lex), "out/g", e, **params)
    except ValueError as ex:
        if name == "lopar" and not cf:
            return ""       # refused, as documented
        return "%s writer raised ValueError: %s" % (name, ex)
    if name == "lopar" and not cf:
        return "LoPar writer accepted a grammar that is not context-free"
    try:
        if name == "lopar":
            got_g = {}
            for line in stubs.get("out/g.gram", e).split("\n"):
                if line == "":
                    continue
                f = line.split(" ")
                func = tuple(f[1:])
                lin = (tuple((i, 0) for i in range(len(func) - 1)),)
                d = got_g.setdefault(func, {})
                d[lin] = d.get(lin, 0) + int(f[0])
            got_lex = dec_lex(stubs.get("out/g.lex", e))
        else:
            text = stubs.get("out/g.%s" % name, e)
            got_g = dec_pmcfg(text) if name == "pmcfg" else dec_rcg(text)
            if lig:
                if "out/g.lex" in stubs.MemFS.files:
                    return "lex_in_grammar still wrote a lexicon file"
                got_g, got_lex = split_lexrules(got_g, set(lex))
            else:
                got_lex = dec_lex(stubs.get("out/g.lex", e))
    except (ValueError, KeyError, IndexError) as ex:
        return "%s output does not decode: %s: %s" % (name, type(ex).__name__, ex)
    if name == "lopar":
        # a PCFG file carries the right-hand side in yield order: normalise the in-memory rules accordingly
        nw = {}
        for f in want_g:
            for l, c in want_g[f].items():
                ff = tuple([f[0]] + [f[1 + i] for (i, _) in l[0]])
                d = nw.setdefault(ff, {})
                ll = (tuple((i, 0) for i in range(len(ff) - 1)),)
                d[ll] = d.get(ll, 0) + c
        want_g = nw
    if got_g != want_g:
        for f in sorted(set(got_g) | set(want_g)):
            if got_g.get(f) != want_g.get(f):
                return "%s file: rule %s decodes to %r, in memory %r" % (name, f, got_g.get(f), want_g.get(f))
    if got_lex != want_lex:
        return "%s lexicon decodes to %r, in memory %r" % (name, got_lex, want_lex)
    if name == "rcg" and not lig:
        try:
            g2, lex2 = grammarinput.rcg("out/g", e)
        except Exception as ex:     # noqa
            return "tool's RCG reader fails on the tool's own output (%s): %s: %s" % (e, type(ex).__name__, ex)
        if norm(g2) != want_g:
            return "tool's RCG reader returns %r, in memory %r" % (norm(g2), want_g)
        if normlex(lex2) != want_lex:
            return "tool's RCG reader returns lexicon %r, in memory %r" % (normlex(lex2), want_lex)
    if name == "lopar":
        lhs = set(f[0] for f in g)
        rhs = set(s for f in g for s in f[1:])
        start = {}
        for f in g:
            if f[0] in lhs - rhs:
                start[f[0]] = start.get(f[0], 0) + sum(norm(g)[f].values())
        got = dict((l.split(" ")[0], int(l.split(" ")[1])) for l in stubs.get("out/g.start", e).split("\n") if l)
        if got != start:
            return "start symbols %r, expected %r" % (got, start)
        up, lo = {}, {}
        for w, tags in want_lex.items():
            for t, c in tags.items():
                d = up if w[0].isupper() else lo
                d[t] = d.get(t, 0) + c
        gl = dict((l.split(" ")[0], int(l.split(" ")[1])) for l in stubs.get("out/g.oc", e).split("\n") if l)
        gu = dict((l.split(" ")[0], int(l.split(" ")[1])) for l in stubs.get("out/g.OC", e).split("\n") if l)
        if gl != lo or gu != up:
            return "open-class counts %r / %r, expected %r / %r" % (gl, gu, lo, up)
    return ""


def wide(k, w, fmt, lig):
    """one flat rule with k right-hand side elements, one of which (position w) has a second block at the right edge:
    variables numbered up to k, i.e. with two digits"""
    n = k + 1
    kw = {"ip1": 0}
    for j in range(1, n + 1):
        kw["lp%d" % j] = 1 if (j == w + 1 or j == n) else 0
    return files(2, n, 1, 0, fmt, 0, lig, **kw)


def cmd(m, n, r, mode, dfmt, enc, lig=False, big=False, **kw):
    """`treetools grammar` with a grammar file as input: the written grammar equals the input grammar"""
    stubs.install()
    ip, lp = e1_get(kw, m, n)
    g, lex = make(m, n, ip, lp, r, mode, 7 if big else 1)
    e = ENCS[enc]
    grammaroutput.rcg(copy.deepcopy(g), copy.deepcopy(lex), "in/g", e)
    args = argparse.Namespace(src="in/g", dest="out/g", gramtype="treebank", markov=None, src_format="rcg", src_enc=e,
                              src_opts=[], dest_format=["rcg", "pmcfg"][dfmt], dest_enc=e,
                              dest_opts=["lex_in_grammar"] if lig else [], verbose=False)
    try:
        grammar.run(args)
    except SystemExit:
        pass
    name = ["rcg", "pmcfg"][dfmt]
    try:
        text = stubs.get("out/g.%s" % name, e)
        got_g = dec_pmcfg(text) if name == "pmcfg" else dec_rcg(text)
        if lig:
            if "out/g.lex" in stubs.MemFS.files:
                return "grammar command with --dest-opts lex_in_grammar still wrote a lexicon file"
            got_g, got_lex = split_lexrules(got_g, set(lex))
        else:
            got_lex = dec_lex(stubs.get("out/g.lex", e))
    except (ValueError, KeyError, IndexError) as ex:
        return "output of the grammar command does not decode: %s: %s" % (type(ex).__name__, ex)
    if got_g != norm(g):
        return "grammar command wrote %r for the input grammar %r" % (got_g, norm(g))
    if got_lex != normlex(lex):
        return "grammar command wrote lexicon %r for %r" % (got_lex, normlex(lex))
    return ""


STRIPALPHA = "A1@-X"


def strip(k, n, **kw):
    """label_strip_fanout(label + str(k)) == label for labels not ending in a digit"""
    s = "".join(STRIPALPHA[kw["x%d" % i]] for i in range(1, n + 1))
    if len(s) == 0 or s[-1].isdigit():
        return "~"      # label ends in a digit: outside the property's precondition
    got = grammarconst.label_strip_fanout(s + str(k))
    if got != s:
        return "label_strip_fanout(%r) = %r" % (s + str(k), got)
    return ""


def conds(tier):
    q = tier == "quick"
    cs = []
    for (m, n) in ([(2, 2), (2, 3), (2, 4)] if q else [(2, 2), (2, 3), (2, 4), (3, 3), (3, 4), (2, 5)]):
        ps = e1_params(m, n) + [P("r", "int", 1, 3), P("mode", "int", 0, 4), P("fmt", "int", 0, 3), P("enc", "int", 0, 3), P("lig", "bool"), P("big", "bool")]
        cs.append(Cond("files-m%d-n%d" % (m, n), "harness.c09:files", ps, fixed={"m": m, "n": n},
                       pre=[e1_wf_expr(m, n), "fmt < 2 or not lig"] + (["enc == (fmt + mode) % 3 and (r == 1 or mode == 0) and big == (r == 2 or mode == 1)"] if q else ["not big or r == 1"]),
                       shard=["fmt", "mode"] + (["lig"] if m * n >= 8 else []) + ([] if q else ["enc"]),
                       skip=lambda sf: sf["fmt"] == 2 and sf.get("lig", False), timeout=600 if q else 3000, functions=FUNCS))
    for (m, n) in ([(2, 3)] if q else [(2, 3), (2, 4), (3, 4)]):
        ps = e1_params(m, n) + [P("r", "int", 1, 3), P("mode", "int", 0, 4), P("dfmt", "int", 0, 2), P("enc", "int", 0, 3), P("lig", "bool"), P("big", "bool")]
        cs.append(Cond("cmd-m%d-n%d" % (m, n), "harness.c09:cmd", ps, fixed={"m": m, "n": n},
                       pre=[e1_wf_expr(m, n)] + (["enc == mode % 3 and r == 1 and big == lig"] if q else ["not big or r == 1"]), shard=["mode", "dfmt"],
                       timeout=600 if q else 3000, functions=FUNCS[5:6] + FUNCS[:4]))
    cs.append(Cond("wide", "harness.c09:wide", [P("k", "int", 9, 13 if q else 15), P("w", "int", 0, 3 if q else 9), P("fmt", "int", 0, 2), P("lig", "bool")],
                   shard=["fmt", "lig"], timeout=600 if q else 3000, functions=FUNCS[:4],
                   note="a flat rule with 9-%d right-hand side elements and a wrapping element: variables with two digits" % (12 if q else 14)))
    for n in ([1, 2, 3] if q else [1, 2, 3, 4]):
        cs.append(Cond("strip-n%d" % n, "harness.c09:strip", [P("x%d" % i, "int", 0, len(STRIPALPHA)) for i in range(1, n + 1)] +
                       [P("k", "int", 1, 13 if n < 3 else 4)], fixed={"n": n}, shard=(["x1"] if n >= 3 else []),
                       timeout=300 if q else 1500, functions=FUNCS[4:5],
                       note="labels of length %d over %r followed by the fan-out k" % (n, STRIPALPHA)))
    return cs
