"""C11 Token-editing transformations change exactly the targeted tokens."""
import re
from vlib.cond import Cond, P
from trees import trees, transform
from harness import stubs
from harness.symtree import (e1_params, e1_get, e1_wf_expr, wf, build_e1, wellformed, cover, kids, all_nodes, leaves_of,
                             constituents)

FUNCS = ["trees.delete_terminal", "transform.punctuation_delete", "transform.ptb_delete_traces",
         "transform.insert_terminals", "transform.substitute_terminals", "transform.filter_by_length"]
ASSUMPTIONS = ["terminal files live in the in-memory file system (stubs); one or two edit lines built from bounded "
               "(sentence id, index) selectors; per-path reset of the cached terminal file (history effects are C18)",
               "trace tokens: POS -NONE- with words *T*-1, *, *U*; constituent labels NP-SBJ-1, NP=2, NP, S-1; "
               "slash annotation only with unique fillers",
               "punctuation membership judged by the harness's own copy of the documented list"]
OUTSIDE = ["sentences that consist of traces / punctuation only (the root itself would be emptied)", "larger trees"]
PUNCT = ['"', "'", "''", "`", "``", "(", "-LRB-", "[", "-LSB-", "{", "-LCB-", ")", "-RRB-", "]", "-RSB-", "}", "-RCB-",
         ".", ",", ";", "?", "!", "--", ":", "-", "/", "..."]


def _toks(root):
    return [(l.data['word'], l.data['label']) for l in leaves_of(root)]


def delete(m, n, i, **kw):
    """trees.delete_terminal(root, token i)"""
    ip, lp = e1_get(kw, m, n)
    nodes, leaves = build_e1(m, n, ip, lp)
    before = _toks(nodes[0])
    labels = sorted(x.data['label'] for x in nodes if any(l.data['num'] != i + 1 for l in leaves_of(x)))
    trees.delete_terminal(nodes[0], leaves[i])
    w = wellformed(nodes[0])
    if w:
        return "after delete_terminal: " + w
    if _toks(nodes[0]) != before[:i] + before[i + 1:]:
        return "tokens after deleting token %d: %s" % (i + 1, _toks(nodes[0]))
    if sorted(x.data['label'] for x in constituents(nodes[0])) != labels:
        return "constituents left without tokens were not pruned exactly"
    return ""


def punctdel(m, n, quiet, **kw):
    stubs.install()
    ip, lp = e1_get(kw, m, n)
    words = [["a", ",", "("][kw["w%d" % j]] for j in range(1, n + 1)]
    nodes, leaves = build_e1(m, n, ip, lp, words=words, sid=7)
    before = _toks(nodes[0])
    keep = [t for t in before if t[0] not in PUNCT]
    params = {'quiet': True} if quiet else {}
    out = transform.punctuation_delete(nodes[0], **params)
    if out is not nodes[0]:
        return "punctuation_delete did not return the root"
    w = wellformed(out)
    if w:
        return "after punctuation_delete: " + w
    exp = keep if keep else before          # punctuation-only sentences are left alone
    if _toks(out) != exp:
        return "tokens %s, expected %s" % (_toks(out), exp)
    # the deleted tokens are written out on stdout, one line each (the exact layout is not pinned by the property)
    rep = [l for l in stubs.SYS.stdout.text().split("\n") if l.strip() != ""]
    gone = [t for t in before if t[0] in PUNCT] if keep else []
    if len(rep) != len(gone) or any(t[0] not in l for t, l in zip(gone, rep)):
        return "deleted punctuation reported as %r, deleted tokens %r" % (rep, gone)
    return ""


TRACEWORDS = ["w", "*T*-1", "*", "*U*"]
CLABELS = ["NP", "NP-SBJ-1", "NP=2", "NP-SBJ=2-1"]
KEEPS = [None, "*T*", "*,*U*"]


def _hasindex(label):
    return re.search(r"[-=]\d+('|/|$)", label) is not None


def _expected_traces(m, n, ip, lp, kinds, cl, ks, keepall, kci, slash):
    """expected token sequence after ptb_delete_traces (set-based reading of the documentation):
    normal tokens stay; a trace stays iff keepall or its label (without indices) is in keep; with slash a kept
    co-indexed trace additionally needs a filler: a surviving constituent carrying its index."""
    keepset = KEEPS[ks].split(",") if KEEPS[ks] else []
    words = [TRACEWORDS[k] for k in kinds]
    phase1 = []
    for w, k in zip(words, kinds):
        bare = w[:-2] if w.endswith("-1") else w
        phase1.append(k == 0 or keepall or bare in keepset)
    filler = False
    for i in range(1, m):
        if cl[i - 1] in (1, 3):         # label carries co-index 1
            for j in range(n):
                a = lp[j]
                while a != 0 and a != i:
                    a = ip[a - 1]
                if a == i and phase1[j]:
                    filler = True
    exp = []
    for w, k, keep in zip(words, kinds, phase1):
        if not keep:
            continue
        if k == 0:
            exp.append((w, "NN"))
        else:
            bare = w[:-2] if w.endswith("-1") else w
            if slash and w.endswith("-1") and not filler:
                continue
            exp.append(("-NONE-", w if kci else bare))
    return exp


def traces(m, n, ks, keepall, kci, slash, **kw):
    stubs.install()
    ip, lp = e1_get(kw, m, n)
    kinds = [kw["k%d" % j] for j in range(1, n + 1)]
    cl = [kw["c%d" % i] for i in range(1, m)]
    words = [TRACEWORDS[k] for k in kinds]
    pos = ["-NONE-" if k > 0 else "NN" for k in kinds]
    labels = ["S"] + [CLABELS[c] for c in cl]
    nodes, leaves = build_e1(m, n, ip, lp, words=words, pos=pos, labels=labels)
    params = {}
    if KEEPS[ks] is not None:
        params['keep'] = KEEPS[ks]
    if keepall:
        params['keepall'] = True
    if kci:
        params['keepcoindex'] = True
    if slash:
        params['slash'] = True
    exp = _expected_traces(m, n, ip, lp, kinds, cl, ks, keepall, kci, slash)
    if not exp:
        return "~"       # nothing survives: outside the claim (excluded by the precondition)
    out = transform.ptb_delete_traces(nodes[0], **params)
    if out is not nodes[0]:
        return "ptb_delete_traces did not return the root"
    w = wellformed(out)
    if w:
        return "after ptb_delete_traces: " + w
    if _toks(out) != exp:
        return "tokens %s, expected %s (params %s)" % (_toks(out), exp, params)
    for x in constituents(out):
        lab = x.data['label']
        if re.search(r"=\d", lab):
            return "gap index left on %r" % lab
        if not kci and _hasindex(lab):
            return "co-index left on %r" % lab
    for l in leaves_of(out):
        if not kci and _hasindex(l.data['label']):
            return "co-index left on trace label %r" % l.data['label']
    return ""


def traces_pre(m, n, ip, lp, kinds, cl, ks, keepall, slash):
    """at least one token survives"""
    return len(_expected_traces(m, n, ip, lp, kinds, cl, ks, keepall, False, slash)) > 0


def edits(m, n, op, quiet, sid1, idx1, two, sid2, idx2, **kw):
    """insert_terminals / substitute_terminals with a terminal file of one or two lines"""
    stubs.install()
    ip, lp = e1_get(kw, m, n)
    nodes, leaves = build_e1(m, n, ip, lp, sid=1)
    before = _toks(nodes[0])
    lines = [(sid1, idx1, "NEW1", "NP")]
    if two:
        lines.append((sid2, idx2, "NEW2", None if op == 1 else "VB"))
    stubs.put("terms.txt", "".join("%d %d %s%s\n" % (s, i, wd, "" if p is None else " " + p) for s, i, wd, p in lines))
    params = {'terminalfile': "terms.txt"}
    if quiet:
        params['quiet'] = True
    fn = transform.insert_terminals if op == 0 else transform.substitute_terminals
    dup = two and (sid1, idx1) == (sid2, idx2)
    try:
        out = fn(nodes[0], **params)
    except ValueError as e:
        if dup:
            return ""       # duplicate index in the file: documented as not allowed, rejected
        return "%s raised ValueError: %s" % (fn.__name__, e)
    if dup:
        return "duplicate index accepted"
    if out is not nodes[0]:
        return "%s did not return the root" % fn.__name__
    w = wellformed(out)
    if w:
        return "after %s: %s" % (fn.__name__, w)
    exp = list(before)
    for s, i, wd, p in sorted([l for l in lines if l[0] == 1], key=lambda l: l[1]):
        if op == 0:
            if 1 <= i <= len(exp) + 1:
                exp[i - 1:i - 1] = [(wd, p)]
        else:
            if 1 <= i <= len(exp):
                exp[i - 1] = (wd, p if p is not None else exp[i - 1][1])
    if _toks(out) != exp:
        return "%s with %s: tokens %s, expected %s" % (fn.__name__, lines, _toks(out), exp)
    # everything that was in the tree keeps its parent
    for x, par in zip(nodes[1:] + leaves, [nodes[i] for i in ip] + [nodes[i] for i in lp]):
        if x.parent is not par:
            return "an existing node was re-attached"
    # the next file of a directory starts again at sentence id 1: a second tree with the same id, same parameters,
    # same process gets the same edits
    nodes2, _leaves2 = build_e1(m, n, ip, lp, sid=1)
    try:
        out2 = fn(nodes2[0], **params)
    except Exception as e:      # noqa
        return "%s on a second tree with the same sentence id failed: %s: %s" % (fn.__name__, type(e).__name__, e)
    if _toks(out2) != exp:
        return "%s with %s on a second tree with the same sentence id: tokens %s, expected %s" % (fn.__name__, lines, _toks(out2), exp)
    return ""


def flt(m, n, op, val, **kw):
    """filter_by_length with an unbounded symbolic value"""
    ip, lp = e1_get(kw, m, n)
    nodes, leaves = build_e1(m, n, ip, lp)
    before = _toks(nodes[0])
    oper = ["lt", "gt", "eq", "xx"][op]
    out = transform.filter_by_length(nodes[0], filteroperator=oper, filtervalue=val)
    drop = (op == 0 and n < val) or (op == 1 and n > val) or (op == 2 and n == val)
    if drop:
        return "" if out is None else "tree of length %d not filtered (%s)" % (n, oper)
    if out is not nodes[0]:
        return "tree of length %d filtered or replaced (%s)" % (n, oper)
    if _toks(out) != before or wellformed(out):
        return "filter_by_length modified the tree"
    return ""


def conds(tier):
    q = tier == "quick"
    cs = []
    shapes = [(1, 2), (2, 2), (2, 3), (3, 3)] if q else [(1, 2), (2, 2), (2, 3), (3, 3), (4, 3)]
    for (m, n) in shapes:
        cs.append(Cond("delete-m%d-n%d" % (m, n), "harness.c11:delete", e1_params(m, n) + [P("i", "int", 0, n)],
                       fixed={"m": m, "n": n}, pre=[e1_wf_expr(m, n)], shard=(["lp1"] if m * n > 12 else []),
                       timeout=400 if q else 2400, functions=FUNCS[:1]))
        ws = [P("w%d" % j, "int", 0, 3) for j in range(1, n + 1)]
        cs.append(Cond("punctdel-m%d-n%d" % (m, n), "harness.c11:punctdel", e1_params(m, n) + ws + [P("quiet", "bool")],
                       fixed={"m": m, "n": n}, pre=[e1_wf_expr(m, n)], shard=["quiet"] + (["w1"] if m * n >= 9 else []) +
                       (["lp1"] if m * n >= 12 else []), timeout=400 if q else 2400, functions=FUNCS[:2]))
    for (m, n) in ([(1, 2), (1, 3), (2, 2)] if q else [(1, 3), (2, 2), (1, 4)]):
        ks = [P("k%d" % j, "int", 0, 4) for j in range(1, n + 1)]
        cl = [P("c%d" % i, "int", 0, 4) for i in range(1, m)]
        cs.append(Cond("traces-m%d-n%d" % (m, n), "harness.c11:traces",
                       e1_params(m, n) + ks + cl + [P("ks", "int", 0, 3), P("keepall", "bool"), P("kci", "bool"), P("slash", "bool")],
                       fixed={"m": m, "n": n},
                       pre=[e1_wf_expr(m, n), "_h.traces_pre(%d, %d, [%s], [%s], [%s], [%s], ks, keepall, slash)" % (
                                m, n, ", ".join("ip%d" % i for i in range(1, m)), ", ".join("lp%d" % j for j in range(1, n + 1)),
                                ", ".join("k%d" % j for j in range(1, n + 1)), ", ".join("c%d" % i for i in range(1, m))),
                            "not (keepall and ks > 0)"],
                       shard=["ks", "kci", "slash"] + (["k1"] if n >= 3 else []) + (["c1"] if n >= 3 and m >= 2 else []),
                       timeout=600 if q else 3000, functions=FUNCS[2:3]))
    for (m, n) in ([(1, 2), (2, 2), (2, 3)] if q else [(1, 2), (2, 2), (2, 3), (3, 3), (3, 4)]):
        base = [P("op", "int", 0, 2), P("quiet", "bool"), P("sid1", "int", 1, 3), P("idx1", "int", 0, n + 3)]
        cs.append(Cond("edit1-m%d-n%d" % (m, n), "harness.c11:edits", e1_params(m, n) + base,
                       fixed={"m": m, "n": n, "two": False, "sid2": 1, "idx2": 0}, pre=[e1_wf_expr(m, n)],
                       shard=["op", "quiet"], timeout=400 if q else 2400, functions=FUNCS[3:5]))
        if (not q and m * n <= 6) or (m, n) == (1, 2):
            cs.append(Cond("edit2-m%d-n%d" % (m, n), "harness.c11:edits",
                           e1_params(m, n) + base + [P("sid2", "int", 1, 3), P("idx2", "int", 0, n + 4)],
                           fixed={"m": m, "n": n, "two": True}, pre=[e1_wf_expr(m, n)], shard=["op", "quiet", "sid1"],
                           timeout=600 if q else 3000, functions=FUNCS[3:5], note="two edit lines, incl. duplicates"))
    for (m, n) in ([(1, 1), (2, 3)] if q else [(1, 1), (2, 3), (3, 4)]):
        cs.append(Cond("filter-m%d-n%d" % (m, n), "harness.c11:flt", e1_params(m, n) + [P("op", "int", 0, 4), P("val", "int", None, None)],
                       fixed={"m": m, "n": n}, pre=[e1_wf_expr(m, n)], shard=["op"], timeout=300 if q else 1200,
                       functions=FUNCS[5:], note="filter value: unbounded symbolic integer"))
    return cs
