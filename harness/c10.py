"""C10 Transition sequences are sound oracles: replaying them rebuilds the tree."""
from vlib.cond import Cond, P
from trees import trees, transform, transitions, transitionoutput
from harness import stubs
from harness.symtree import (e1_params, e1_get, e1_wf_expr, wf, build_e1, cover, kids, runs, all_nodes)

FUNCS = ["transitions.topdown", "transitions.inorder", "transitions._inorder", "transitions.gap",
         "transitionoutput.plain", "transform.binarize"]
ASSUMPTIONS = ["head assignment = one symbolic head index per constituent, then transform.binarize (the real one) for the "
               "top-down and gap systems; the in-order system also on the unbinarized tree",
               "replay automata (harness/c10.py): right-to-left stack machine for the reversed-preorder top-down system, "
               "PJ/REDUCE machine for in-order, stack/deque/buffer machine of Coavoux & Crabbe for gap, in the variant the tool itself simulates: when "
               "the deque is flushed onto the stack (before SHIFT, after REDUCE) its items are pushed one by one from the top, "
               "so items that were gapped over return in reversed order; the golden sequence of tests/test_transitions.py "
               "replays to its tree only under this variant (order-preserving flush rebuilds another tree from it)",
               "all shapes E1(m, n) inside the bound, incl. one-token sentences and unary chains at the root and above tokens"]
ASSUMPTIONS += ["the tree handed to the oracle is fresh, or was written by the export or TIGER-XML writer before, or went through "
                "collapse_unary_chains / uncollapse_unary_chains before (selector hist; tied to other selectors for the larger shapes)"]
OUTSIDE = ["larger trees"]


def rp_topdown(trans, n):
    st = []
    nxt = n
    for t in trans:
        if t == 'SHIFT':
            if nxt < 1:
                return "SHIFT with empty buffer"
            st.append(('L', nxt))
            nxt -= 1
        elif t.startswith('UNARY-'):
            if not st:
                return "UNARY on empty stack"
            st.append(('N', t[6:], None, (st.pop(),)))
        elif t.startswith('BINARY-'):
            side, lab = t[7:].split('-', 1)
            if len(st) < 2:
                return "BINARY with fewer than two items"
            a = st.pop()
            b = st.pop()
            st.append(('N', lab, side, (a, b)))
        else:
            return "unknown transition " + t
    if nxt != 0 or len(st) != 1:
        return "ends with %d unread tokens and %d items" % (nxt, len(st))
    return st[0]


def rp_inorder(trans, n):
    st = []
    nxt = 1
    for t in trans:
        if t == 'SHIFT':
            if nxt > n:
                return "SHIFT with empty buffer"
            st.append(('L', nxt))
            nxt += 1
        elif t.startswith('PJ-'):
            if not st or st[-1][0] == 'PJ':
                return "PJ without a first child"
            st.append(('PJ', t[3:]))
        elif t == 'REDUCE':
            ks = []
            while st and st[-1][0] != 'PJ':
                ks.append(st.pop())
            if not st:
                return "REDUCE without PJ"
            lab = st.pop()[1]
            if not st:
                return "PJ without first child"
            first = st.pop()
            st.append(('N', lab, None, tuple([first] + ks[::-1])))
        else:
            return "unknown transition " + t
    if nxt != n + 1 or len(st) != 1:
        return "ends with unread tokens or %d items" % len(st)
    return st[0]


def _sp(k):
    if k[0] == 'L':
        return [k[1]]
    r = []
    for c in k[3]:
        r.extend(_sp(c))
    return sorted(r)


def rp_gap(trans, n):
    s, d, b = [], [], list(range(1, n + 1))
    for t in trans:
        if t == 'SHIFT':
            if not b:
                return "SHIFT with empty buffer"
            while d:
                s = [d.pop(0)] + s
            d = [('L', b.pop(0))]
        elif t == 'GAP':
            if not s:
                return "GAP on empty stack"
            d.append(s.pop(0))
        elif t.startswith('R-'):
            side, lab = t[2:].split('-', 1)
            if not s or not d:
                return "REDUCE with empty stack or deque"
            a, c = s[0], d[0]
            s, d = s[1:], d[1:]
            ks = tuple(sorted([a, c], key=lambda k: _sp(k)[0]))
            p = ('N', lab, side, ks, a)
            while d:
                s = [d.pop(0)] + s
            d = [p]
        elif t.startswith('UNARY-'):
            if not d:
                return "UNARY on empty deque"
            d[0] = ('N', t[6:], None, (d[0],))
        else:
            return "unknown transition " + t
    if s or b or len(d) != 1:
        return "ends with stack %d, buffer %d, deque %d" % (len(s), len(b), len(d))
    return d[0]


def _strip(k):
    if k[0] == 'L':
        return k
    return ('N', k[1], tuple(_strip(c) for c in k[3]))


def _heads_of(k, out):
    if k[0] == 'L':
        return
    if k[2] is not None:
        if len(k) == 5:
            hk = k[4] if k[2] == 'LEFT' else [c for c in k[3] if c is not k[4]][0]
        else:
            hk = k[3][0] if k[2] == 'LEFT' else k[3][1]
        out.append((k[1], tuple(_sp(k)), tuple(_sp(hk))))
    for c in k[3]:
        _heads_of(c, out)


def _tmodel(t):
    if not t.children:
        return ('L', t.data['num'])
    return ('N', t.data['label'], tuple(_tmodel(c) for c in kids(t)))


def _theads(t, out):
    ks = kids(t)
    if len(ks) == 2:
        h = [c for c in ks if c.data.get('head')]
        out.append((t.data['label'], tuple(cover(t)), tuple(cover(h[0])) if len(h) == 1 else None))
    for c in ks:
        _theads(c, out)


def heads_ok(m, n, ip, lp, hs):
    for i in range(m):
        k = sum(1 for x in ip if x == i) + sum(1 for x in lp if x == i)
        if not hs[i] < k:
            return False
    return True


SYS = ["gap", "topdown", "inorder", "inorder-nary"]


HIST = ["fresh tree", "tree was written by the export writer before", "tree was written by the TIGER-XML writer before",
        "tree went through collapse_unary_chains / uncollapse_unary_chains before"]


def replay(m, n, sy, pos, hist=0, **kw):
    stubs.install()
    ip, lp = e1_get(kw, m, n)
    labels = ["VROOT", "NP", "S", "VP"][:m]
    nodes, leaves = build_e1(m, n, ip, lp, labels=labels)
    if hist in (1, 2):
        from trees import treeoutput
        sink = stubs.Sink()
        (treeoutput.export if hist == 1 else treeoutput.tigerxml)(nodes[0], sink)
    elif hist == 3:
        root = transform.uncollapse_unary_chains(transform.collapse_unary_chains(nodes[0]))
        bylabel = dict((x.data['label'], x) for x in all_nodes(root) if x.children)
        if sorted(bylabel) != sorted(labels) or root.parent is not None:
            return "collapse/uncollapse does not restore the constituents: %r" % sorted(bylabel)
        nodes = [bylabel[l] for l in labels]
        leaves = sorted((x for x in all_nodes(root) if not x.children), key=lambda x: x.data['num'])
    for i, nd in enumerate(nodes):
        for j, c in enumerate(kids(nd)):
            c.data['head'] = (j == kw["h%d" % i])
    nodes[0].data['head'] = False
    tree = nodes[0]
    name = SYS[sy]
    if name != "inorder-nary":
        tree = transform.binarize(tree)
    cont = max(len(runs(cover(x))) - 1 for x in nodes) == 0
    if name != "gap" and not cont:
        return "~"       # top-down and in-order are defined for continuous trees only (excluded by the precondition)
    exp = _tmodel(tree)
    eh = []
    _theads(tree, eh)
    fn = getattr(transitions, name.split("-")[0])
    terms, trans = fn(tree)
    seq = [str(t) for t in trans]
    terms2, trans2 = fn(tree)
    if [str(t) for t in trans2] != seq or terms2 != terms or len(seq) != len([str(t) for t in trans]):
        return "%s: a second call on the same tree gives %s, the first gave %s" % (name, " ".join(str(t) for t in trans2), " ".join(seq))
    got = {"gap": rp_gap, "topdown": rp_topdown, "inorder": rp_inorder, "inorder-nary": rp_inorder}[name](seq, n)
    if isinstance(got, str):
        return "%s: replay fails: %s -- %s" % (name, got, " ".join(seq))
    if _strip(got) != exp:
        return "%s: replay rebuilds %r, tree is %r -- %s" % (name, _strip(got), exp, " ".join(seq))
    if name in ("gap", "topdown"):
        gh = []
        _heads_of(got, gh)
        if sorted(gh) != sorted(eh):
            return "%s: head sides differ: %r vs %r" % (name, sorted(gh), sorted(eh))
    want = [(l.data['word'], l.data['label']) for l in leaves]
    if terms != want:
        return "%s: returned sentence %r, expected %r" % (name, terms, want)
    params = {'pos': True} if pos else {}
    transitionoutput.plain([(terms, trans), (terms, trans)], "out.trans", "utf-8", **params)
    text = stubs.get("out.trans")
    line = " ".join(w[1] if pos else w[0] for w in want) + " ||| " + " ".join(seq) + "\n"
    if text != line + line:
        return "%s: transition file %r, expected two lines %r" % (name, text, line)
    return ""


def cont_ok(m, n, ip, lp, sy):
    """top-down / in-order only on continuous trees"""
    if sy == 0:
        return True
    cov = [[] for _ in range(m)]
    for j in range(n):
        i = lp[j]
        while True:
            cov[i].append(j)
            if i == 0:
                break
            i = ip[i - 1]
    for c in cov:
        c.sort()
        for a, b in zip(c, c[1:]):
            if b != a + 1:
                return False
    return True


def conds(tier):
    q = tier == "quick"
    cs = []
    for (m, n) in ([(1, 1), (2, 1), (3, 1), (1, 2), (2, 2), (3, 2), (1, 3), (2, 3), (3, 3)] if q else
                   [(1, 1), (2, 1), (3, 1), (4, 1), (1, 2), (2, 2), (3, 2), (4, 2), (1, 3), (2, 3), (3, 3), (4, 3), (1, 4), (2, 4), (3, 4), (4, 4)]):
        hs = [P("h%d" % i, "int", 0, n) for i in range(m)]
        ipn = ", ".join("ip%d" % i for i in range(1, m))
        lpn = ", ".join("lp%d" % j for j in range(1, n + 1))
        hpre = "_h.heads_ok(%d, %d, [%s], [%s], [%s])" % (m, n, ipn, lpn, ", ".join("h%d" % i for i in range(m)))
        cpre = "_h.cont_ok(%d, %d, [%s], [%s], sy)" % (m, n, ipn, lpn)
        sh = ["sy"] + (["lp1"] if m * n >= 9 else []) + (["lp2"] if m * n >= 12 else [])
        cs.append(Cond("replay-m%d-n%d" % (m, n), "harness.c10:replay", e1_params(m, n) + hs + [P("sy", "int", 0, 4), P("pos", "bool"), P("hist", "int", 0, 4)],
                       fixed={"m": m, "n": n}, pre=[e1_wf_expr(m, n), hpre, cpre] + (["hist == (lp1 + h0 + (1 if pos else 0)) % 4"] if m * n >= 6 else []), shard=sh, timeout=600 if q else 3000,
                       functions=FUNCS))
    return cs
