"""C20 Label parsing and formatting are mutually inverse."""
from vlib.cond import Cond, P
from trees import trees

ALPHA = "A1-=#'*"
FUNCS = ["trees.parse_label", "trees.format_label", "trees.get_label"]
ASSUMPTIONS = [
    "component boundaries follow the grammar documented in parse_label's docstring, read from the right (head mark, co-index, "
    "gap index) and then at the first function separator from the left that is neither first nor last character",
    "label strings range over the alphabet A 1 - = # ' * (letters and digits are represented by one member each; "
    "the code only tests isdigit(), equality with separators and the literals EMPTY / --)",
    "the literals EMPTY and -- (longer than the string bound of the quick tier) are covered by a dedicated condition "
    "that splices them into a symbolic string",
]
OUTSIDE = ["strings longer than the bound", "characters outside the alphabet (whitespace is excluded by the property)",
           "parse_label ignores its gf_separator argument in every format alike (DESIGN.md §5); not pinned by the property"]


def _ref_parse(s):
    """Independent reference parser of LABEL (GFSEP GF)? (=GAP)? (-CO)? '?  (right to left)."""
    head = ""
    if s.endswith("'"):
        head, s = "'", s[:-1]
    co = ""
    i = s.rfind("-")
    if i > -1 and s[i + 1:].isdigit():
        co, s = s[i + 1:], s[:i]
    gap = ""
    i = s.rfind("=")
    if i > -1 and s[i + 1:].isdigit():
        gap, s = s[i + 1:], s[:i]
    gf = None
    i = s.find("-")
    if 0 < i < len(s) - 1:
        gf, s = s[i + 1:], s[:i]
    return s, gf, gap, co, head


def roundtrip(s, lit=0, pos=0, mode=0, first=None):
    """format(parse(s)) == s, component deletion, trace recognition.  `lit` splices a default literal
    into the symbolic string at `pos` so that the documented exceptions are exercised."""
    if first is not None:
        s = ALPHA[first] + s if first >= 0 else ""
    if lit == 1:
        s = s[:pos] + "EMPTY" + s[pos:]
    elif lit == 2:
        s = s[:pos] + "--" + s[pos:]
    elif lit == 3:
        s = "EMPTY-" + s
    if mode > 0:
        return _clear(s, mode)
    lab = trees.parse_label(s)
    cat, gf, gap, co, head = _ref_parse(s)
    # --- parse agrees with the reference split
    want_cat = cat if cat != "" else "EMPTY"
    want_gf = gf if gf is not None else "--"
    if lab.label != want_cat:
        return "category %r, expected %r" % (lab.label, want_cat)
    if lab.gf != want_gf:
        return "function %r, expected %r" % (lab.gf, want_gf)
    if lab.gapindex != gap or lab.coindex != co or lab.headmarker != head:
        return "indices/head (%r,%r,%r), expected (%r,%r,%r)" % (lab.gapindex, lab.coindex, lab.headmarker, gap, co, head)
    # --- trace recognition
    if lab.is_trace != (want_cat[0] == "*" and want_cat[-1] == "*"):
        return "is_trace %r for category %r" % (lab.is_trace, want_cat)
    # --- format o parse
    out = trees.format_label(lab)
    full = trees.format_label(lab, always_gf=True, always_label=True)
    exp_cat = "" if want_cat == "EMPTY" else want_cat
    exp_gf = "" if want_gf == "--" else "-" + want_gf
    tail = ("=" + gap if gap else "") + ("-" + co if co else "") + head
    if out != exp_cat + exp_gf + tail:
        return "format gives %r, expected %r" % (out, exp_cat + exp_gf + tail)
    if full != want_cat + "-" + want_gf + tail:
        return "format(always) gives %r" % full
    # the only allowed differences to s are the dropped default literals
    if cat != "" and cat != "EMPTY" and (gf is None or gf != "--"):
        if out != s:
            return "round trip %r -> %r" % (s, out)
    return ""


def _clear(s, mode):
    """clearing one component and formatting removes exactly that component's text"""
    cat, gf, gap, co, head = _ref_parse(s)
    exp_cat = "" if cat in ("", "EMPTY") else cat
    exp_gf = "" if gf is None or gf == "--" else "-" + gf
    comp = ("gapindex", "coindex", "headmarker", "gf")[mode - 1]
    l2 = trees.parse_label(s)
    setattr(l2, comp, trees.DEFAULT_EDGE if comp == "gf" else "")
    exp = exp_cat + ("" if comp == "gf" else exp_gf) + ("" if comp == "gapindex" or not gap else "=" + gap) \
        + ("" if comp == "coindex" or not co else "-" + co) + ("" if comp == "headmarker" else head)
    got = trees.format_label(l2)
    if got != exp:
        return "clearing %s of %r gives %r, expected %r" % (comp, s, got, exp)
    # the object returned earlier was modified: a fresh parse of the same string must not be affected
    l3 = trees.parse_label(s)
    want = {"gapindex": gap, "coindex": co, "headmarker": head, "gf": gf if gf is not None else "--"}[comp]
    if getattr(l3, comp) != want:
        return "parsing %r again after clearing %s of an earlier result gives %s=%r, expected %r" % (s, comp, comp, getattr(l3, comp), want)
    return ""


LABELS = ["NP", "S", "*T*", "$.", "EMPTY"]
EDGES = ["--", "HD", "SB", "-", "-X"]
SEPS = [None, "-", "#", "/"]


def getlabel(li, ei, si, term, gf, gft, mh, bm, bn, head, split, blk):
    """get_label = category followed by exactly the requested decorations, in the documented order."""
    t = trees.Tree(trees.make_node_data())
    t.data['label'] = LABELS[li]
    t.data['edge'] = EDGES[ei]
    t.data['head'] = head
    t.data['split'] = split
    t.data['block_number'] = blk
    if term:
        t.data['word'] = "w"
        t.data['num'] = 1
    else:
        c = trees.Tree(trees.make_node_data())
        c.data['word'] = "w"
        c.data['num'] = 1
        c.parent = t
        t.children.append(c)
    params = {}
    if gf:
        params['gf'] = True
    if gft:
        params['gf_terminals'] = True
    if SEPS[si] is not None:
        params['gf_separator'] = SEPS[si]
    if mh:
        params['mark_heads_marking'] = True
    if bm:
        params['boyd_split_marking'] = True
    if bn:
        params['boyd_split_numbering'] = True
    got = trees.get_label(t, **params)
    sep = SEPS[si] if SEPS[si] is not None else "-"
    exp = LABELS[li]
    if gf and not EDGES[ei].startswith("-") and (not term or gft):
        exp += sep + EDGES[ei]
    if mh and head:
        exp += "'"
    if bm and split:
        exp += "*"
    if bn and split:
        exp += str(blk)
    if got != exp:
        return "get_label gives %r, expected %r" % (got, exp)
    return ""


def conds(tier):
    q = tier == "quick"
    L = 4 if q else 6
    cs = []
    # all strings of length <= L = {""} + {ALPHA[first] + s : len(s) <= L-1}; one shard per (mode, first)
    cs.append(Cond("roundtrip", "harness.c20:roundtrip",
                   [P("s", "str", hi=L - 1, alphabet=ALPHA), P("mode", "int", 0, 5), P("first", "int", -1, len(ALPHA))],
                   shard=["mode", "first"], timeout=200 if q else 1500, functions=FUNCS[:2],
                   note="mode 0: parse vs reference split, trace test, format(parse(s)); modes 1-4: clear one component"))
    Ls = 2 if q else 3
    cs.append(Cond("literals", "harness.c20:roundtrip",
                   [P("s", "str", hi=Ls, alphabet=ALPHA), P("lit", "int", 1, 4), P("pos", "int", 0, Ls + 1),
                    P("mode", "int", 0, 5)],
                   shard=["lit", "mode"], timeout=200 if q else 1500, functions=FUNCS[:2],
                   note="default literals EMPTY / -- spliced into a symbolic string at a symbolic position"))
    if q:
        gl = [P("li", "int", 0, 2), P("ei", "int", 0, 4), P("si", "int", 0, 2), P("blk", "int", 1, 3)]
    else:
        gl = [P("li", "int", 0, 3), P("ei", "int", 0, len(EDGES)), P("si", "int", 0, len(SEPS)),
              P("blk", "int", 1, 3)]
    cs.append(Cond("getlabel", "harness.c20:getlabel",
                   gl + [P("term", "bool"), P("gf", "bool"), P("gft", "bool"), P("mh", "bool"), P("bm", "bool"),
                         P("bn", "bool"), P("head", "bool"), P("split", "bool")],
                   shard=["term", "gf", "gft", "mh"], timeout=200 if q else 1200, functions=FUNCS[2:]))
    return cs
