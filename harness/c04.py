"""C04 Structural transformations preserve the sentence and tree well-formedness."""
from vlib.cond import Cond, P
from trees import trees, transform
from harness.symtree import (e1_params, e1_get, e1_wf_expr, wf, build_e1, wellformed, cover, kids, all_nodes, runs,
                             leaves_of, constituents)

T = ["root_attach", "negra_mark_heads", "mark_heads_by_rules", "boyd_split", "raising", "add_topnode",
     "punctuation_verylow", "punctuation_symetrify", "punctuation_root", "binarize", "collapse_unary_chains",
     "uncollapse_unary_chains"]
FUNCS = ["transform." + t for t in T]
WORDS = ["a", ",", "``"]
EDGES = ["HD", "NK", "--"]
ASSUMPTIONS = ["words from {a , ``} (non-punctuation, punctuation, paired punctuation); edges from {HD, NK, --}; labels VROOT, NP, "
               "CO (a category whose head rule has an empty priority list), X3; all shapes E1(m, n) inside the bound",
               "prerequisites as documented: head marking before boyd_split and binarize; boyd_split before raising, and "
               "no transformation that creates nodes (binarize, add_topnode, uncollapse) or re-marks heads between them; "
               "collapse before uncollapse; collapse/uncollapse not before transformations that interpret labels"]
OUTSIDE = ["programs longer than the bound", "larger trees"]


def prereq_ok(prog):
    """documented prerequisites of a program (list of indices into T)"""
    heads = False
    split = False       # boyd_split applied and its flags still valid on every node
    collapsed = False
    for t in prog:
        name = T[t]
        if name in ("negra_mark_heads", "mark_heads_by_rules"):
            if split:
                return False            # re-marking heads between boyd_split and raising changes the head blocks
            heads = True
        elif name == "boyd_split":
            if not heads or collapsed or split:
                return False
            split = True
        elif name == "raising":
            if not split:
                return False
            split = False
        elif name == "binarize":
            if not heads or split:
                return False
            heads = False               # new @-nodes: marks are complete only for the original nodes
        elif name == "add_topnode":
            if split:
                return False
            heads = False
        elif name == "collapse_unary_chains":
            if split:
                return False
            collapsed = True
        elif name == "uncollapse_unary_chains":
            if not collapsed:
                return False
            collapsed = False
            heads = False
        elif collapsed and name in ("punctuation_verylow", "punctuation_symetrify", "punctuation_root", "root_attach"):
            pass
    return True


def _components(root):
    """multiset of label components (split at '+') of all constituents, without @-nodes"""
    out = []
    for x in all_nodes(root):
        if x.children and not x.data['label'].startswith('@'):
            out.extend(x.data['label'].split('+'))
    return sorted(out)


def _tokseq(root):
    return [(l.data['word'], l.data['label'].split('+')[-1]) for l in leaves_of(root)]


def _poscomponents(root):
    out = []
    for l in leaves_of(root):
        out.extend(l.data['label'].split('+')[:-1])
    return sorted(out)


def run_prog(root, prog, params):
    """apply a program with the oracle after every step; returns ('', root) or (reason, None)"""
    toks = _tokseq(root)
    presplit = None
    for t in prog:
        name = T[t]
        before = sorted(_components(root) + _poscomponents(root))
        blocks = None
        if name == "boyd_split":
            presplit = before
            blocks = []
            for x in constituents(root):
                blocks.extend([x.data['label']] * len(runs(cover(x))))
            blocks.sort()
        try:
            out = getattr(transform, name)(root, **params)
        except Exception as e:      # noqa
            return "%s raised %s: %s" % (name, type(e).__name__, e), None
        w = wellformed(out)
        if w:
            return "%s: result not well formed: %s" % (name, w), None
        if _tokseq(out) != toks:
            return "%s changed the token sequence: %s -> %s" % (name, toks, _tokseq(out)), None
        after = sorted(_components(out) + _poscomponents(out))
        if name == "add_topnode":
            exp = sorted(before + ["TOP"])
        elif name == "boyd_split":
            exp = blocks
        elif name == "raising":
            exp = presplit
        else:
            exp = before
        if after != exp:
            return "%s: constituent labels %s, expected %s" % (name, after, exp), None
        if name == "binarize":
            for x in all_nodes(out):
                if len(x.children) > 2:
                    return "binarize left a node with %d children" % len(x.children), None
        if name == "collapse_unary_chains":
            for x in all_nodes(out):
                if len(x.children) == 1:
                    return "collapse left a unary node", None
        root = out
    return "", root


def _params(bare, relc, preset):
    p = {"mark_heads_preset": ["negra", "ptb"][preset]}
    if bare:
        p["bare_bin_labels"] = True
    if relc:
        p["relc"] = "P2"
    return p


def _tree(m, n, kw, nw=3, ne=3):
    ip, lp = e1_get(kw, m, n)
    words = [WORDS[kw.get("w%d" % j, 0) % nw] for j in range(1, n + 1)]
    edges = ["--"] + [EDGES[kw.get("e%d" % j, 2) % ne] for j in range(1, m + n)]
    nodes, leaves = build_e1(m, n, ip, lp, words=words, edges=edges, labels=["VROOT", "NP", "CO", "X3"][:m])
    return nodes[0]


def single(m, n, t, mark, bare, relc, preset, **kw):
    """one transformation (preceded by the head marking / boyd_split / collapse it needs)"""
    root = _tree(m, n, kw)
    name = T[t]
    prog = [t]
    if name in ("boyd_split", "binarize"):
        prog = [1 + mark, t]
    elif name == "raising":
        prog = [1 + mark, 3, t]
    elif name == "uncollapse_unary_chains":
        prog = [10, t]
    r, _ = run_prog(root, prog, _params(bare, relc, preset))
    return r


def seq(m, n, L, mark, **kw):
    """a symbolic program of L transformations, filtered by the documented prerequisites"""
    prog = [kw["t%d" % i] for i in range(1, L + 1)]
    root = _tree(m, n, kw)
    r, _ = run_prog(root, prog, _params(False, False, 0))
    return r


def pipeline(m, n, mark, **kw):
    """the documented pipeline root_attach, head marking, boyd_split, raising"""
    root = _tree(m, n, kw)
    r, _ = run_prog(root, [0, 1 + mark, 3, 4], _params(False, False, 0))
    return r


def seq_ok(*prog):
    return prereq_ok(list(prog))


def conds(tier):
    q = tier == "quick"
    cs = []
    # singles: punctuation transformations with all word assignments; the others with edge assignments
    pshapes = [(1, 1), (2, 1), (2, 2), (2, 3)] if q else [(1, 1), (2, 1), (3, 1), (2, 2), (2, 3), (3, 3)]
    for (m, n) in pshapes:
        ws = [P("w%d" % j, "int", 0, 3) for j in range(1, n + 1)]
        cs.append(Cond("punct-m%d-n%d" % (m, n), "harness.c04:single", e1_params(m, n) + ws + [P("t", "int", 6, 9), P("relc", "bool")],
                       fixed={"m": m, "n": n, "mark": 0, "bare": False, "preset": 0}, pre=[e1_wf_expr(m, n), "t == 7 or not relc"],
                       shard=["t"] + (["w1"] if m * n >= 9 else []) + (["lp1"] if m * n >= 12 else []),
                       timeout=600 if q else 3000, functions=FUNCS[6:9]))
    sshapes = [(1, 1), (2, 1), (2, 2), (2, 3), (3, 3)] if q else [(1, 1), (2, 1), (3, 1), (2, 2), (2, 3), (3, 3)]
    for (m, n) in sshapes:
        ne = 1 if (q or m * n >= 12) else min(m + n - 1, 3)
        es = [P("e%d" % j, "int", 0, 3) for j in range(1, ne + 1)]
        cs.append(Cond("struct-m%d-n%d" % (m, n), "harness.c04:single",
                       e1_params(m, n) + es + [P("t", "int", 0, 12), P("mark", "int", 0, 2), P("bare", "bool"), P("preset", "int", 0, 2)],
                       fixed={"m": m, "n": n, "relc": False},
                       pre=[e1_wf_expr(m, n), "t not in (6, 7, 8)", "(t == 9 or not bare) and (mark == 1 or preset == 0)",
                            "t in (2, 3, 4, 9) or mark == 0"],
                       shard=["t"] + (["lp1"] if m * n >= 9 and not q else []) + (["e1"] if not q and m + n >= 5 else []),
                       skip=lambda sf: sf["t"] in (6, 7, 8), timeout=600 if q else 3000, functions=FUNCS))
    for (m, n) in ([(2, 2), (2, 3), (3, 3)] if q else [(2, 3), (3, 3), (3, 4), (4, 4)]):
        es = [P("e%d" % j, "int", 0, 3) for j in range(1, (2 if (q or m * n >= 16) else 4))]
        cs.append(Cond("pipeline-m%d-n%d" % (m, n), "harness.c04:pipeline", e1_params(m, n) + es + [P("mark", "int", 0, 2)],
                       fixed={"m": m, "n": n}, pre=[e1_wf_expr(m, n)], shard=["mark"] + (["lp1"] if m * n >= 9 else []) +
                       (["lp2"] if m * n >= 16 else []),
                       timeout=600 if q else 3000, functions=FUNCS[:5]))
    # programs
    for (m, n, L, nw) in ([(2, 2, 2, 2), (2, 3, 2, 1)] if q else [(2, 3, 2, 2), (3, 3, 2, 1), (2, 2, 3, 1)]):
        ts = [P("t%d" % i, "int", 0, 12) for i in range(1, L + 1)]
        ws = [P("w%d" % j, "int", 0, nw) for j in range(1, n + 1)] if nw > 1 else []
        cs.append(Cond("seq%d-m%d-n%d" % (L, m, n), "harness.c04:seq", e1_params(m, n) + ws + ts,
                       fixed={"m": m, "n": n, "L": L, "mark": 0},
                       pre=[e1_wf_expr(m, n), "_h.seq_ok(%s)" % ", ".join("t%d" % i for i in range(1, L + 1))],
                       shard=["t1"] + (["t2"] if L >= 3 or (m * n >= 9 and not q) else []) + (["lp1"] if m * n >= 12 else []),
                       skip=lambda sf: not prereq_ok([sf[k] for k in ("t1", "t2") if k in sf]),
                       timeout=600 if q else 3000, functions=FUNCS,
                       note="all prerequisite-respecting programs of length %d" % L))
    return cs
