"""C12 root_attach moves only root children, to the lowest node spanning the neighbours."""
from vlib.cond import Cond, P
from trees import trees, transform
from harness.symtree import e1_params, e1_get, e1_wf_expr, wf, build_e1, wellformed, cover

FUNCS = ["transform.root_attach", "trees.lca", "trees.right_sibling", "trees.children", "trees.terminals"]
ASSUMPTIONS = ["all tree shapes E1(m, n) inside the bound (every assignment of tokens and constituents to parents, "
               "hence every mix of token/constituent root children, continuous or not)",
               "child lists stored forward or reversed (rev)"]
OUTSIDE = ["trees with more constituents/tokens than the bound"]


def _ref(nodes, leaves):
    """Set-based reference of the documented rule; returns the expected parent of every node (by index)."""
    allx = nodes + leaves
    idx = dict((id(x), i) for i, x in enumerate(allx))
    par = [idx[id(x.parent)] if x.parent is not None else None for x in allx]
    n = len(leaves)
    leafidx = dict((l.data['num'], idx[id(l)]) for l in leaves)

    def toks(i):
        res = []
        for l in leaves:
            y = idx[id(l)]
            while y is not None:
                if y == i:
                    res.append(l.data['num'])
                    break
                y = par[y]
        return sorted(res)

    def anc(i):
        r = []
        while i is not None:
            r.append(i)
            i = par[i]
        return r

    def rootkids():
        ks = [i for i in range(len(allx)) if par[i] == 0]
        return sorted(ks, key=lambda k: toks(k)[0])

    for c in rootkids():                    # snapshot of the root children, left to right
        tl = toks(c)[0] - 1
        tr = toks(c)[-1] + 1
        ks = rootkids()
        right = ks[ks.index(c) + 1:] if c in ks else []
        fmax = toks(c)[-1]
        for s in right:                     # skip adjacent, not yet attached root children on the right
            st = toks(s)
            if st[0] < fmax:
                continue
            if st[0] > fmax + 1:
                break
            tr = st[-1] + 1
            fmax = st[-1]
        if tl < 1 or tr > n:
            continue
        a = anc(leafidx[tl])
        b = anc(leafidx[tr])
        target = [x for x in a if x in b][0]
        par[c] = target
    return par


def attach(m, n, rev, **kw):
    ip, lp = e1_get(kw, m, n)
    nodes, leaves = build_e1(m, n, ip, lp, rev=rev, edges=["--"] + ["E%d" % i for i in range(1, m + n)])
    allx = nodes + leaves
    idx = dict((id(x), i) for i, x in enumerate(allx))
    exp = _ref(nodes, leaves)
    before = [(x.data.get('label'), x.data.get('word'), x.data.get('edge'), x.data.get('num')) for x in allx]
    out = transform.root_attach(nodes[0])
    if out is not nodes[0]:
        return "root_attach returned another node"
    w = wellformed(out)
    if w:
        return "result not well formed: " + w
    got = [idx[id(x.parent)] if x.parent is not None else None for x in allx]
    if got != exp:
        bad = [i for i in range(len(allx)) if got[i] != exp[i]][0]
        return "node %s attached to %s, reference says %s" % (before[bad], got[bad] is not None and before[got[bad]],
                                                             exp[bad] is not None and before[exp[bad]])
    after = [(x.data.get('label'), x.data.get('word'), x.data.get('edge'), x.data.get('num')) for x in allx]
    if after != before:
        return "labels, words, edges or token numbers changed"
    # frame: only former root children may have changed their parent
    for i, x in enumerate(allx):
        orig = ([0] + [ip[k - 1] for k in range(1, m)] + [lp[j] for j in range(n)])[i] if i > 0 else None
        if i > 0 and got[i] != orig and orig != 0:
            return "a node that was not a child of the root was moved"
    return ""


def conds(tier):
    q = tier == "quick"
    cs = []
    for (m, n) in ([(2, 3), (3, 3), (2, 4), (3, 4), (4, 3), (2, 5)] if q else [(3, 3), (2, 4), (3, 4), (4, 3), (4, 4), (2, 5), (3, 5), (4, 5)]):
        size = 1
        for i in range(1, m):
            size *= i
        size *= m ** n
        sh = ["rev"]
        if size > 100:
            sh.append("lp1")
        if size > 600:
            sh.append("lp2")
        if size > 3000:
            sh.append("lp3")
        cs.append(Cond("attach-m%d-n%d" % (m, n), "harness.c12:attach", e1_params(m, n) + [P("rev", "bool")],
                       fixed={"m": m, "n": n}, pre=[e1_wf_expr(m, n)], shard=sh, timeout=400 if q else 3000,
                       functions=FUNCS))
    return cs
