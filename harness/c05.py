"""C05 Crossing-branch removal always yields continuous trees, heads kept in place."""
from vlib.cond import Cond, P
from trees import trees, transform, treeanalysis
from harness.symtree import (e1_params, e1_get, e1_wf_expr, wf, build_e1, wellformed, cover, kids, runs, all_nodes,
                             label_multiset, tokens, constituents)

FUNCS = ["transform.boyd_split", "transform.raising", "transform.root_attach", "trees.get_label",
         "trees.children", "trees.terminals", "trees.postorder", "trees.preorder"]
ASSUMPTIONS = ["head assignment = one symbolic head index per constituent (all exactly-one-head assignments); that the "
               "two head-marking transformations produce such assignments is property C15",
               "all tree shapes E1(m, n) inside the bound; the tree is built through the Tree API or (selector via) written by the "
               "harness encoder and delivered by the real export reader, which leaves its own bookkeeping on the nodes"]
OUTSIDE = ["head assignments through edge labels (measured: does not finish, DESIGN.md §6 C05)", "larger trees"]


def _span(k):
    if k[0] == 'L':
        return [k[2]]
    r = []
    for c in k[3]:
        r.extend(_span(c))
    return sorted(r)


def _ref_cont(t, headof):
    """reference continuification: returns (model of t, raised material)"""
    if not t.children:
        return ('L', t.data['label'], t.data['num'], ()), []
    h = headof[id(t)]
    items = []
    for c in t.children:
        k, r = _ref_cont(c, headof)
        items.append((k, c is h))
        items.extend((x, False) for x in r)
    items.sort(key=lambda it: _span(it[0])[0])
    rs = [[items[0]]]
    for it in items[1:]:
        if _span(it[0])[0] == _span(rs[-1][-1][0])[-1] + 1:
            rs[-1].append(it)
        else:
            rs.append([it])
    keep = [r for r in rs if any(f for _, f in r)][0]
    raised = [k for r in rs if r is not keep for k, _ in r]
    return ('N', t.data['label'], None, tuple(k for k, _ in keep)), raised


def _mod(t):
    if not t.children:
        return ('L', t.data['label'], t.data['num'], ())
    return ('N', t.data['label'], None, tuple(_mod(c) for c in kids(t)))


def _mark(nodes, kw, m):
    """head flags from symbolic head indices h0..h(m-1): head child = (h_i mod arity)-th child in token order"""
    headof = {}
    for i, nd in enumerate(nodes):
        ks = kids(nd)
        h = kw["h%d" % i] % len(ks)
        for j, c in enumerate(ks):
            c.data['head'] = (j == h)
        headof[id(nd)] = ks[h]
    nodes[0].data['head'] = False
    return headof


def _via_export(nodes):
    """the same tree as the export reader delivers it (readers leave their own bookkeeping on the nodes, e.g. the
    terminal-number lists of the export reader): written by the harness encoder, read by the real reader"""
    from harness import stubs
    from harness.formats import enc_export, spec_of_tree
    from trees import treeinput
    stubs.install()
    stubs.put("c.export", enc_export([(1, spec_of_tree(nodes[0]))]))
    got = [t for t in treeinput.export("c.export", "utf-8", quiet=True)]
    if len(got) != 1:
        raise ValueError("export reader yields %d trees for one sentence" % len(got))
    bylabel = dict((x.data['label'], x) for x in all_nodes(got[0]) if x.children)
    new = [bylabel[nd.data['label']] for nd in nodes]
    if new[0] is not got[0] or spec_of_tree(got[0]) != spec_of_tree(nodes[0]):
        raise ValueError("export reader does not deliver the tree that was written")
    return new


def cont(m, n, ra, via=False, **kw):
    """boyd_split + raising (optionally after root_attach) = reference continuification"""
    ip, lp = e1_get(kw, m, n)
    nodes, leaves = build_e1(m, n, ip, lp)
    if via:
        nodes = _via_export(nodes)
    root = nodes[0]
    if ra:
        root = transform.root_attach(root)
    headof = _mark(nodes, kw, m)
    toks_before = tokens(root)
    labels_before = label_multiset(root)
    was_cont = max(len(runs(cover(x))) - 1 for x in nodes) == 0
    before = _mod(root)
    exp, raised = _ref_cont(root, headof)
    if raised:
        return "reference raised material out of the root (harness bug)"
    out = transform.raising(transform.boyd_split(root))
    w = wellformed(out)
    if w:
        return "result not well formed: " + w
    for x in all_nodes(out):
        if len(runs(cover(x))) != 1:
            return "node %s is not contiguous after raising" % x.data['label']
    if tokens(out) != toks_before:
        return "token sequence changed"
    if label_multiset(out) != labels_before:
        return "label multiset changed: %s -> %s" % (labels_before, label_multiset(out))
    if _mod(out) != exp:
        return "result differs from the reference continuification"
    if was_cont and _mod(out) != before:
        return "continuous tree changed"
    return ""


def split(m, n, **kw):
    """boyd_split alone: k same-labelled contiguous nodes per k-block constituent, in block order, one head block"""
    ip, lp = e1_get(kw, m, n)
    nodes, leaves = build_e1(m, n, ip, lp, labels=["VROOT"] + ["X%d" % i for i in range(1, m)])
    root = nodes[0]
    _mark(nodes, kw, m)
    if len(runs(cover(root))) != 1:
        return "harness: root not contiguous"
    blocks = dict((nd.data['label'], runs(cover(nd))) for nd in nodes)
    out = transform.boyd_split(root)
    w = wellformed(out)
    if w:
        return "result not well formed: " + w
    got = {}
    for x in constituents(out):
        got.setdefault(x.data['label'], []).append(x)
    for lab, bl in blocks.items():
        reps = sorted(got.get(lab, []), key=lambda x: cover(x)[0])
        if len(reps) != len(bl):
            return "%s covering %d blocks is represented by %d nodes" % (lab, len(bl), len(reps))
        if [cover(x) for x in reps] != bl:
            return "%s: nodes %s do not cover the blocks %s" % (lab, [cover(x) for x in reps], bl)
        if len(bl) > 1:
            hb = [x for x in reps if x.data.get('head_block')]
            if len(hb) != 1:
                return "%s: %d head blocks" % (lab, len(hb))
            for k, x in enumerate(reps):
                l1 = trees.get_label(x, boyd_split_marking=True)
                l2 = trees.get_label(x, boyd_split_numbering=True)
                l3 = trees.get_label(x, boyd_split_marking=True, boyd_split_numbering=True)
                if l1 != lab + "*" or l2 != lab + str(k + 1) or l3 != lab + "*" + str(k + 1):
                    return "%s: split marking/numbering shows %r %r %r for block %d" % (lab, l1, l2, l3, k + 1)
        else:
            x = reps[0]
            if trees.get_label(x, boyd_split_marking=True, boyd_split_numbering=True) != lab:
                return "%s: unsplit node carries a split mark" % lab
    if sorted(got) != sorted(blocks):
        return "labels appeared or disappeared"
    return ""


def _hparams(m, n):
    return [P("h%d" % i, "int", 0, n) for i in range(m)]


def conds(tier):
    q = tier == "quick"
    cs = []
    for (m, n) in ([(2, 3), (3, 3), (3, 4)] if q else [(2, 3), (3, 3), (3, 4), (4, 4), (3, 5)]):
        # head index pre: h_i < max arity is enforced by taking it modulo the arity; restrict to h_i < n - (m-1-i)... keep simple
        sh = ["ra"]
        if m * n >= 12:
            sh += ["lp1", "lp2"]
        if m * n >= 16:
            sh += ["lp3"]
        if m * n >= 20:
            sh += ["ip2", "ip3"]
        cs.append(Cond("cont-m%d-n%d" % (m, n), "harness.c05:cont", e1_params(m, n) + [P("ra", "bool"), P("via", "bool")] + _hparams(m, n),
                       fixed={"m": m, "n": n}, pre=[e1_wf_expr(m, n), "via == (lp1 + h0) % 2" if m * n >= 12 else "True", "_h.heads_ok(%d, %d, [%s], [%s], [%s])" % (
                           m, n, ", ".join("ip%d" % i for i in range(1, m)), ", ".join("lp%d" % j for j in range(1, n + 1)),
                           ", ".join("h%d" % i for i in range(m)))],
                       shard=sh, timeout=600 if q else 3000, functions=FUNCS))
    for (m, n) in ([(2, 3), (3, 4)] if q else [(3, 4), (4, 4), (3, 5)]):
        sh = []
        if m * n >= 12:
            sh += ["lp1", "lp2"]
        if m * n >= 16:
            sh += ["lp3"]
        cs.append(Cond("split-m%d-n%d" % (m, n), "harness.c05:split", e1_params(m, n) + _hparams(m, n),
                       fixed={"m": m, "n": n}, pre=[e1_wf_expr(m, n), "_h.heads_ok(%d, %d, [%s], [%s], [%s])" % (
                           m, n, ", ".join("ip%d" % i for i in range(1, m)), ", ".join("lp%d" % j for j in range(1, n + 1)),
                           ", ".join("h%d" % i for i in range(m)))],
                       shard=sh, timeout=600 if q else 3000, functions=FUNCS))
    return cs


def heads_ok(m, n, ip, lp, hs):
    """each head index is below the arity of its constituent (so that every head assignment is explored once)"""
    for i in range(m):
        k = sum(1 for x in ip if x == i) + sum(1 for x in lp if x == i)
        if not hs[i] < k:
            return False
    return True
