"""Harness-owned encoders and decoders of the treebank file formats, written from the format
descriptions (Brants 1997 export, PTB brackets, discobrackets as documented in treeinput.discobrackets,
TIGER-XML), independent of trees/treeinput.py and trees/treeoutput.py.

Sentence model ("spec"):
    sentence = (sid, node)
    constituent node = ("N", label, edge, (child, ...))        children ordered by leftmost token
    token node       = ("T", word, pos, edge, lemma, morph, num)
"""
import io as _io
import xml.etree.ElementTree as ET
from xml.sax.saxutils import escape as _xesc

from trees import trees
from harness.symtree import cover, kids, mknode, mkleaf, attach


# ----------------------------------------------------------------------------- spec <-> real trees
def spec_of_tree(t):
    """Observe a real tree through raw attributes."""
    if not t.children:
        return ("T", t.data.get('word'), t.data.get('label'), t.data.get('edge'), t.data.get('lemma'),
                t.data.get('morph'), t.data.get('num'))
    return ("N", t.data.get('label'), t.data.get('edge'), tuple(spec_of_tree(c) for c in kids(t)))


def build_tree(spec, sid=1, rev=False, extra=None):
    """Build a real trees.Tree from a spec through the public constructor."""
    def rec(s):
        if s[0] == "T":
            t = mkleaf(s[1], s[2], s[6], s[3], s[5], s[4])
        else:
            t = mknode(s[1], s[2])
            for c in s[3]:
                attach(t, rec(c), rev)
        if extra:
            t.data.update(extra)
        return t
    root = rec(spec)
    root.data['sid'] = sid
    return root


def spec_e1(m, n, ip, lp, labels=None, words=None, pos=None, edges=None, lemmas=None, morphs=None):
    """Spec of the E1(m, n) tree (see symtree)."""
    kidsof = [[] for _ in range(m)]
    for i in range(1, m):
        kidsof[ip[i - 1]].append(("c", i))
    for j in range(n):
        kidsof[lp[j]].append(("t", j))

    def rec(i):
        ch = []
        for kind, k in kidsof[i]:
            if kind == "c":
                ch.append(rec(k))
            else:
                ch.append(("T", words[k] if words else "w%d" % (k + 1), pos[k] if pos else "P%d" % (k + 1),
                           edges[m + k] if edges else "--", lemmas[k] if lemmas else "--",
                           morphs[k] if morphs else "--", k + 1))
        ch.sort(key=lambda s: span(s)[0])
        return ("N", labels[i] if labels else ("VROOT" if i == 0 else "X%d" % i), edges[i] if edges else "--", tuple(ch))
    return rec(0)


def span(s):
    if s[0] == "T":
        return [s[6]]
    r = []
    for c in s[3]:
        r.extend(span(c))
    return sorted(r)


def spec_tokens(s):
    if s[0] == "T":
        return [s]
    r = []
    for c in s[3]:
        r.extend(spec_tokens(c))
    return sorted(r, key=lambda t: t[6])


def spec_nodes(s):
    r = [s]
    if s[0] == "N":
        for c in s[3]:
            r.extend(spec_nodes(c))
    return r


def spec_gapdeg(s):
    best = 0
    for x in spec_nodes(s):
        sp = span(x)
        g = sum(1 for a, b in zip(sp, sp[1:]) if b != a + 1)
        best = max(best, g)
    return best


def project(s, word=True, pos=True, edge=True, lemma=True, morph=True, label=True, cedge=None, f=None):
    """Drop the fields a format does not carry (cedge: edge of constituents, default = edge); f maps strings."""
    if cedge is None:
        cedge = edge
    g = (lambda x: x) if f is None else (lambda x: x if x is None else f(x))
    if s[0] == "T":
        return ("T", g(s[1]) if word else None, g(s[2]) if pos else None, g(s[3]) if edge else None,
                g(s[4]) if lemma else None, g(s[5]) if morph else None, s[6])
    return ("N", g(s[1]) if label else None, g(s[2]) if cedge else None,
            tuple(project(c, word, pos, edge, lemma, morph, label, cedge, f) for c in s[3]))


def show(s):
    if s[0] == "T":
        return "(%s %s:%s|%s|%s|%s)" % (s[2], s[1], s[6], s[3], s[4], s[5])
    return "(%s|%s %s)" % (s[1], s[2], " ".join(show(c) for c in s[3]))


BR = [("(", "LRB"), ("-LRB-", "LRB"), ("[", "LSB"), ("-LSB-", "LSB"), ("{", "LCB"), ("-LCB-", "LCB"),
      (")", "RRB"), ("-RRB-", "RRB"), ("]", "RSB"), ("-RSB-", "RSB"), ("}", "RCB"), ("-RCB-", "RCB")]


def paren_names(x):
    """the documented names for brackets inside tokens"""
    for a, b in BR:
        x = x.replace(a, b)
    return x


# ----------------------------------------------------------------------------- export
def _height(s):
    return 0 if s[0] == "T" else 1 + max(_height(c) for c in s[3])


def export_numbering(root):
    """constituent -> number: by height, then leftmost token; the root is 0"""
    cs = [x for x in spec_nodes(root) if x[0] == "N" and x is not root]
    cs.sort(key=lambda x: (_height(x), span(x)[0]))
    num = {}
    for i, x in enumerate(cs):
        num[id(x)] = 500 + i
    num[id(root)] = 0
    return num, cs


def enc_export(sents, v4=False, sep="\t", header=False, comments=False, secedge=False, bosextra=False):
    """Export format text for a list of (sid, spec)."""
    out = []
    if header:
        out.append("#FORMAT %d\n#BOT ORIGIN\n0\tNGR\tNegra\n#EOT ORIGIN\n#BOT EDGETAG\n-1\t--\tnot bound\n#EOT EDGETAG\n"
                   % (4 if v4 else 3))
    for sid, root in sents:
        if comments:
            out.append("%% a comment between sentences\n\n")
        num, cs = export_numbering(root)
        par = {}
        for x in spec_nodes(root):
            if x[0] == "N":
                for c in x[3]:
                    par[id(c)] = num[id(x)]
        out.append("#BOS %d%s\n" % (sid, " 2 1098266456 1 %% xyz" if bosextra else ""))
        for t in spec_tokens(root):
            f = [t[1]] + ([t[4]] if v4 else []) + [t[2], t[5], t[3], "%d" % par[id(t)]]
            if secedge:
                f += ["SE", "500"]
            out.append(sep.join(f) + "\n")
        for x in cs:
            f = ["#%d" % num[id(x)]] + (["--"] if v4 else []) + [x[1], "--", x[2], "%d" % par[id(x)]]
            out.append(sep.join(f) + "\n")
        out.append("#EOS %d\n" % sid)
    return "".join(out)


def dec_export(text, v4=False):
    """Independent export decoder with the structural checks of property C02.
    Returns (sentences, problem) ; sentences = [(sid, spec)]."""
    sents = []
    lines = text.split("\n")
    i = 0
    while i < len(lines):
        line = lines[i]
        i += 1
        if not line.startswith("#BOS"):
            if line.strip() != "":
                return sents, "material outside a sentence: %r" % line
            continue
        sid = int(line.split()[1])
        rows = []
        while i < len(lines) and not lines[i].startswith("#EOS"):
            rows.append(lines[i])
            i += 1
        if i >= len(lines):
            return sents, "missing #EOS"
        if int(lines[i].split()[1]) != sid:
            return sents, "#EOS id differs from #BOS id"
        i += 1
        toks, cons = [], {}
        seen_cons = False
        order = []
        for row in rows:
            f = row.split()
            if len(f) != (6 if v4 else 5):
                return sents, "line with %d fields: %r" % (len(f), row)
            if not v4:
                f[1:1] = [None]
            word, lemma, label, morph, edge, parent = f
            if not parent.isdigit():
                return sents, "parent field %r" % parent
            parent = int(parent)
            if len(word) == 4 and word[0] == "#" and word[1:].isdigit():
                seen_cons = True
                k = int(word[1:])
                if k in cons:
                    return sents, "constituent number %d used twice" % k
                cons[k] = (label, edge, parent)
                order.append(k)
            else:
                if seen_cons:
                    return sents, "token line after a constituent line"
                toks.append((word, label, edge, lemma, morph, parent))
        if order != list(range(500, 500 + len(order))):
            return sents, "constituents not numbered consecutively from 500 in file order: %s" % order
        ch = {}
        for j, t in enumerate(toks):
            ch.setdefault(t[5], []).append(("T", t[0], t[1], t[2], t[3], t[4], j + 1))
        for k in order:
            label, edge, parent = cons[k]
            if parent != 0 and parent not in cons:
                return sents, "parent reference %d does not resolve" % parent
            if parent != 0 and not k < parent:
                return sents, "constituent %d is not numbered below its parent %d" % (k, parent)
        for t in toks:
            if t[5] != 0 and t[5] not in cons:
                return sents, "parent reference %d of a token does not resolve" % t[5]

        def rec(k):
            label, edge, parent = cons[k]
            kids_ = list(ch.get(k, [])) + [rec(c) for c in order if cons[c][2] == k]
            if not kids_:
                raise ValueError("childless constituent %d" % k)
            kids_.sort(key=lambda s: span(s)[0])
            return ("N", label, edge, tuple(kids_))
        try:
            top = list(ch.get(0, [])) + [rec(c) for c in order if cons[c][2] == 0]
        except ValueError as e:
            return sents, str(e)
        top.sort(key=lambda s: span(s)[0])
        sents.append((sid, ("N", "VROOT", "--", tuple(top))))
    return sents, ""


# ----------------------------------------------------------------------------- brackets
def enc_brackets(sents, ws_open="", ws_kids="", ws_close="", sep="\n", emptyroot=False, disco=False, gf=None,
                 fw=None):
    """Bracket text.  gf: separator to append edge labels with (None = no edges); fw maps words."""
    out = []
    for sid, root in sents:
        def lab(s, e):
            if gf is not None and e is not None and not e.startswith("-"):
                return s + gf + e
            return s

        def rec(s, top=False):
            if s[0] == "T":
                w = str(s[6]) if disco else (fw(s[1]) if fw else s[1])
                return "(" + ws_open + lab(s[2], s[3]) + " " + w + ws_close + ")"
            head = "" if (top and emptyroot) else lab(s[1], s[2])
            inner = ws_kids.join(rec(c) for c in s[3])
            return "(" + ("" if head == "" else ws_open) + head + ws_kids + inner + ws_close + ")"
        line = rec(root, True)
        if disco:
            line += "\t" + " ".join((fw(t[1]) if fw else t[1]) for t in spec_tokens(root))
            out.append(line + "\n")
        else:
            out.append(line + sep)
    return "".join(out)


def dec_brackets(text, disco=False):
    """Independent recursive-descent decoder of bracket lines: [(None, spec)], problem.
    Token numbers are assigned left to right (brackets) or read from the leaves (disco)."""
    sents = []
    for line in text.split("\n"):
        if line == "":
            continue
        sent = None
        if disco:
            if "\t" not in line:
                return sents, "no tab in discobrackets line"
            line, sent = line.split("\t", 1)
            sent = sent.split(" ")
        pos = [0]
        cnt = [0]

        def skip():
            while pos[0] < len(line) and line[pos[0]] in " \t":
                pos[0] += 1

        def atom():
            st = pos[0]
            while pos[0] < len(line) and line[pos[0]] not in "() \t":
                pos[0] += 1
            return line[st:pos[0]]

        def node():
            if pos[0] >= len(line) or line[pos[0]] != "(":
                raise ValueError("expected ( at %d" % pos[0])
            pos[0] += 1
            skip()
            label = atom()
            skip()
            if pos[0] < len(line) and line[pos[0]] == "(":
                ch = []
                while pos[0] < len(line) and line[pos[0]] == "(":
                    ch.append(node())
                    skip()
                if pos[0] >= len(line) or line[pos[0]] != ")":
                    raise ValueError("expected ) at %d" % pos[0])
                pos[0] += 1
                return ("N", label, None, tuple(ch))
            word = atom()
            skip()
            if word == "" or pos[0] >= len(line) or line[pos[0]] != ")":
                raise ValueError("bad terminal at %d" % pos[0])
            pos[0] += 1
            cnt[0] += 1
            return ("T", word, label, None, None, None, cnt[0])
        try:
            root = node()
            skip()
            if pos[0] != len(line):
                return sents, "trailing material %r" % line[pos[0]:]
        except ValueError as e:
            return sents, "%s in %r" % (e, line)
        if disco:
            def fix(s):
                if s[0] == "T":
                    if not s[1].isdigit() or not 1 <= int(s[1]) <= len(sent):
                        raise ValueError("bad terminal index %r" % s[1])
                    k = int(s[1])
                    return ("T", sent[k - 1], s[2], None, None, None, k)
                ch = [fix(c) for c in s[3]]
                ch.sort(key=lambda c: span(c)[0])
                return ("N", s[1], None, tuple(ch))
            try:
                root = fix(root)
            except ValueError as e:
                return sents, str(e)
            if sorted(t[6] for t in spec_tokens(root)) != list(range(1, len(sent) + 1)):
                return sents, "indices are not exactly 1..n"
        sents.append((None, root))
    return sents, ""


# ----------------------------------------------------------------------------- TIGER-XML
def _qa(v):
    return '"' + _xesc(v, {'"': "&quot;"}) + '"'


def enc_tiger(sents, idstyle=0, explicit_root=True, perm_nt=False, perm_edge=False, perm_attr=False,
              secedge=False, with_lemma=True, with_morph=True, encoding="utf-8"):
    """TIGER-XML bytes.  idstyle: 0 's7', 1 's3_7', 2 '7'."""
    out = ["<?xml version=\"1.0\" encoding=\"%s\"?>\n<corpus id=\"c\">\n<head><meta><name>x</name></meta></head>\n<body>\n"
           % encoding]
    for sid, root in sents:
        sname = ["s%d" % sid, "s3_%d" % sid, "%d" % sid][idstyle]
        num, cs = export_numbering(root)
        top = root
        nts = list(cs)
        if explicit_root or len(root[3]) > 1 or root[1] != "VROOT":
            nts.append(root)
            ident = dict((id(x), "%s_%d" % (sname, num[id(x)] if x is not root else 999)) for x in nts)
        else:
            ident = dict((id(x), "%s_%d" % (sname, num[id(x)])) for x in nts)
            top = root[3][0]
        for t in spec_tokens(root):
            ident[id(t)] = "%s_%d" % (sname, t[6])
        out.append("<s id=\"%s\">\n<graph root=\"%s\">\n<terminals>\n" % (sname, ident.get(id(top), "x")))
        for t in spec_tokens(root):
            attrs = [("id", ident[id(t)]), ("word", t[1]), ("pos", t[2])]
            if with_lemma and t[4] is not None:
                attrs.append(("lemma", t[4]))
            if with_morph and t[5] is not None:
                attrs.append(("morph", t[5]))
            if perm_attr:
                attrs.reverse()
            body = ""
            if secedge:
                body = "<secedge label=\"SE\" idref=\"%s\"/>" % ident[id(t)]
            out.append("<t %s>%s</t>\n" % (" ".join("%s=%s" % (k, _qa(v)) for k, v in attrs), body) if body else
                       "<t %s/>\n" % " ".join("%s=%s" % (k, _qa(v)) for k, v in attrs))
        out.append("</terminals>\n<nonterminals>\n")
        if perm_nt:
            nts.reverse()
        for x in nts:
            attrs = [("id", ident[id(x)]), ("cat", x[1])]
            if perm_attr:
                attrs.reverse()
            out.append("<nt %s>\n" % " ".join("%s=%s" % (k, _qa(v)) for k, v in attrs))
            ch = list(x[3])
            if perm_edge:
                ch.reverse()
            for c in ch:
                ea = [("label", c[3] if c[0] == "T" else c[2]), ("idref", ident[id(c)])]
                if perm_attr:
                    ea.reverse()
                out.append("<edge %s/>\n" % " ".join("%s=%s" % (k, _qa(v)) for k, v in ea))
            if secedge and ch:
                out.append("<secedge label=\"SE\" idref=\"%s\"/>\n" % ident[id(ch[0])])
            out.append("</nt>\n")
        out.append("</nonterminals>\n</graph>\n</s>\n")
    out.append("</body>\n</corpus>\n")
    return "".join(out).encode(encoding)


def dec_tiger(data):
    """Independent TIGER-XML decoder (xml.etree on concrete bytes): [(sid, spec)], problem."""
    import re
    try:
        doc = ET.parse(_io.BytesIO(data))
    except ET.ParseError as e:
        return [], "not well-formed XML: %s" % e
    body = doc.getroot().find("body")
    if body is None:
        return [], "no <body>"
    sents = []
    for s in body.findall("s"):
        ds = re.findall(r"\d+", s.get("id") or "")
        if not ds:
            return sents, "sentence without numeric id"
        sid = int(ds[-1])
        g = s.find("graph")
        if g is None or g.find("terminals") is None:
            return sents, "no graph/terminals"
        nodes = {}
        for j, t in enumerate(g.find("terminals").findall("t")):
            if t.get("id") in nodes:
                return sents, "duplicate id"
            nodes[t.get("id")] = ["T", t.get("word"), t.get("pos"), None, t.get("lemma"), t.get("morph"), j + 1]
        nts = g.find("nonterminals").findall("nt") if g.find("nonterminals") is not None else []
        for x in nts:
            if x.get("id") in nodes:
                return sents, "duplicate id"
            nodes[x.get("id")] = ["N", x.get("cat"), None, []]
        haspar = set()
        for x in nts:
            for e in x.findall("edge"):
                r = e.get("idref")
                if r not in nodes:
                    return sents, "idref %r does not resolve" % r
                if r in haspar:
                    return sents, "two incoming edges for %r" % r
                haspar.add(r)
                c = nodes[r]
                if c[0] == "T":
                    c[3] = e.get("label")
                else:
                    c[2] = e.get("label")
                nodes[x.get("id")][3].append(r)
        roots = [k for k in nodes if k not in haspar]
        if len(roots) != 1:
            return sents, "%d roots" % len(roots)

        def rec(k, depth=0):
            if depth > 50:
                raise ValueError("cycle")
            v = nodes[k]
            if v[0] == "T":
                return tuple(v)
            if not v[3]:
                raise ValueError("childless constituent")
            ch = [rec(c, depth + 1) for c in v[3]]
            ch.sort(key=lambda c: span(c)[0])
            return ("N", v[1], v[2], tuple(ch))
        try:
            root = rec(roots[0])
        except ValueError as e:
            return sents, str(e)
        sents.append((sid, root))
    return sents, ""


# ----------------------------------------------------------------------------- terminals
def dec_terminals(text, one=False, pos=False):
    """[[(word, pos|None), ...]] per sentence"""
    sents = []
    if one:
        cur = []
        for line in text.split("\n")[:-1]:
            if line == "":
                sents.append(cur)
                cur = []
            else:
                f = line.split("\t")
                cur.append((f[0], f[1] if len(f) > 1 else None))
        return sents
    for line in text.split("\n")[:-1]:
        toks = []
        for w in line.split(" "):
            if w == "":
                continue
            if pos:
                i = w.rfind("/")
                toks.append((w[:i], w[i + 1:]))
            else:
                toks.append((w, None))
        sents.append(toks)
    return sents


def decode_file(fmt, text, v4=False):
    """decode a file of any output format into a list of comparable sentences: (items, problem)"""
    if fmt == "export":
        return dec_export(text, v4=v4)
    if fmt == "brackets":
        return dec_brackets(text)
    if fmt == "discobrackets":
        return dec_brackets(text, disco=True)
    if fmt == "tigerxml":
        return dec_tiger(text.encode("utf-8") if isinstance(text, str) else text)
    if fmt == "terminals":
        return dec_terminals(text), ""
    raise ValueError(fmt)
