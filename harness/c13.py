"""C13 Punctuation re-attachment puts punctuation where documented, moves nothing else."""
from vlib.cond import Cond, P
from trees import trees, transform
from harness.symtree import e1_params, e1_get, e1_wf_expr, wf, build_e1, wellformed, leaves_of

FUNCS = ["transform.punctuation_verylow", "transform.punctuation_root", "transform.punctuation_symetrify",
         "trees.terminals", "trees.children"]
WORDS = ["a", ",", "``", "''", ".", "("]
PUNCT = ['"', "'", "''", "`", "``", "(", "-LRB-", "[", "-LSB-", "{", "-LCB-", ")", "-RRB-", "]", "-RSB-", "}", "-RCB-",
         ".", ",", ";", "?", "!", "--", ":", "-", "/", "..."]
PAIR = PUNCT[:17]
ASSUMPTIONS = ["words range over a small alphabet with a non-punctuation word, commas/full stops and paired punctuation; "
               "membership in the punctuation classes is judged by the harness's own copy of the documented lists",
               "all tree shapes E1(m, n) inside the bound, hence punctuation at any depth/position, consecutive punctuation, "
               "punctuation-only constituents and unary nodes over punctuation"]
OUTSIDE = ["tokens without a POS tag (label None)", "larger trees", "words outside the alphabet"]
NAMES = ["punctuation_verylow", "punctuation_root", "punctuation_symetrify"]


def punct(m, n, t, nw, relc, rp, same=False, **kw):
    ip, lp = e1_get(kw, m, n)
    words = [WORDS[kw["w%d" % j] % nw] for j in range(1, n + 1)]
    # the comma-class token is represented by every member of the documented class in turn (derived from the other
    # selectors, so that the number of paths does not grow)
    cm = PUNCT[17:][(sum(kw["w%d" % j] * (j + 1) for j in range(1, n + 1)) + sum(lp) * 3 + t) % 10]
    words = [cm if w == "," else w for w in words]
    # one other token carries a POS tag that is a proper substring of the designated label
    repos = (rp + 1 if rp < n else rp - 1) if relc else 0
    pos = ["REL" if (relc and rp == j) else ("RE" if (relc and j == repos) else "P%d" % j) for j in range(1, n + 1)]
    nodes, leaves = build_e1(m, n, ip, lp, words=words, pos=pos, labels=(["S"] * m if same else None))
    allx = nodes + leaves
    par0 = [x.parent for x in allx]
    data0 = [(x.data.get('label'), x.data.get('word'), x.data.get('num')) for x in allx]
    params = {'relc': "REL"} if relc else {}
    out = getattr(transform, NAMES[t])(nodes[0], **params)
    if out is not nodes[0]:
        return "%s did not return the root" % NAMES[t]
    w = wellformed(out)
    if w:
        return "%s: result not well formed: %s" % (NAMES[t], w)
    if [(x.data.get('label'), x.data.get('word'), x.data.get('num')) for x in allx] != data0:
        return "labels, words or numbering changed"
    moved = [x for x, p in zip(allx, par0) if x.parent is not p]
    isp = lambda x: (not x.children) and x.data['word'] in PUNCT
    ispair = lambda x: (not x.children) and x.data['word'] in PAIR
    if t == 0:
        if any(not isp(x) for x in moved):
            return "verylow moved something that is not a punctuation token"
        for i, l in enumerate(leaves):
            if i > 0 and isp(l):
                sister = l.parent is leaves[i - 1].parent
                onlyp = all(isp(c) for c in l.parent.children)
                if not (sister or onlyp):
                    return "verylow: punctuation token %d is not a sister of its left neighbour" % (i + 1)
    elif t == 1:
        if any(not isp(x) for x in moved):
            return "punctuation_root moved something that is not a punctuation token"
        for l in leaves:
            if isp(l) and not (l.parent is nodes[0] or len(l.parent.children) == 1):
                return "punctuation_root: token %d is neither at the root nor an only child" % l.data['num']
    else:
        if any(not ispair(x) for x in moved):
            return "symetrify moved something that is not a paired-punctuation token"
        for x in moved:
            ok = False
            for c in x.parent.children:
                if c is x or c.children:
                    continue
                if ispair(c):
                    ok = True
                if relc and c.data['num'] < n and leaves[c.data['num']].data['label'] == "REL":
                    ok = True
            if not ok:
                return "symetrify moved token %d into a constituent without other paired punctuation" % x.data['num']
    return ""


def conds(tier):
    q = tier == "quick"
    cs = []
    plan = [(2, 2, 6), (2, 3, 4), (3, 3, 3)] if q else [(2, 2, 6), (2, 3, 6), (3, 3, 4), (2, 4, 4)]
    for (m, n, nw) in plan:
        ws = [P("w%d" % j, "int", 0, nw) for j in range(1, n + 1)]
        sh = ["t"]
        if (nw ** n) * (m ** n) > 500:
            sh.append("w1")
        if (nw ** n) * (m ** n) > 6000:
            sh.append("lp1")
        cs.append(Cond("punct-m%d-n%d" % (m, n), "harness.c13:punct", e1_params(m, n) + ws + [P("t", "int", 0, 3)],
                       fixed={"m": m, "n": n, "nw": nw, "relc": False, "rp": 0}, pre=[e1_wf_expr(m, n)], shard=sh,
                       timeout=600 if q else 3000, functions=FUNCS, note="words from %r" % WORDS[:nw]))
    for (m, n, nw) in ([(2, 2, 3), (2, 3, 2)] if q else [(2, 3, 3), (3, 3, 2)]):
        ws = [P("w%d" % j, "int", 0, nw) for j in range(1, n + 1)]
        cs.append(Cond("samelabel-m%d-n%d" % (m, n), "harness.c13:punct", e1_params(m, n) + ws + [P("t", "int", 0, 3)],
                       fixed={"m": m, "n": n, "nw": nw, "relc": False, "rp": 0, "same": True}, pre=[e1_wf_expr(m, n)], shard=["t"],
                       timeout=600 if q else 3000, functions=FUNCS, note="every constituent carries the root's label"))
    for (m, n, nw) in ([(2, 3, 3)] if q else [(2, 3, 4), (3, 3, 3), (2, 4, 3)]):
        ws = [P("w%d" % j, "int", 0, nw) for j in range(1, n + 1)]
        cs.append(Cond("relc-m%d-n%d" % (m, n), "harness.c13:punct", e1_params(m, n) + ws + [P("rp", "int", 2, n + 1)],
                       fixed={"m": m, "n": n, "nw": nw, "relc": True, "t": 2}, pre=[e1_wf_expr(m, n)], shard=["rp"],
                       timeout=600 if q else 3000, functions=FUNCS[2:],
                       note="relative-clause option: token rp carries the designated POS"))
    return cs
