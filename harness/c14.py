"""C14 Tree binarization and unary-chain collapsing are reversible normal forms."""
from vlib.cond import Cond, P
from trees import trees, transform
from harness.symtree import (e1_params, e1_get, e1_wf_expr, wf, build_e1, wellformed, cover, kids, all_nodes)

FUNCS = ["transform.binarize", "transform._binarize_tree", "transform.collapse_unary_chains",
         "transform.uncollapse_unary_chains", "trees.parse_label", "trees.format_label"]
ASSUMPTIONS = ["head assignment = one symbolic head index per constituent", "labels VROOT, NP-1 (co-indexed), X, Y: "
               "without '+' and not starting with '@'; in the binarization conditions a symbolic selector rotates the constituents "
               "through labels with function, gap index and co-indices of one, two and three digits", "all shapes E1(m, n) inside the bound (arity up to n, discontinuous nodes, "
               "unary chains of length up to m at the root, in the middle and above tokens)"]
OUTSIDE = ["arity above 5, chains longer than 4"]
LABELS = ["VROOT", "NP-1", "X", "Y", "Z"]
# decorated labels for the binarization conditions: the co-index is the trailing -<digits> (one or more digits)
DLABELS = ["NP-1", "NP-12", "S-SBJ-10", "NP=2", "NP-SBJ", "NP-SBJ=3-14", "X", "VP-HD-207"]


def _no_coindex(label):
    import re
    return re.sub(r"-[0-9]+$", "", label)


def _mod(t):
    if not t.children:
        return ('L', t.data['label'], t.data['word'], t.data['num'])
    return ('N', t.data['label'], tuple(_mod(c) for c in kids(t)))


def _sp(k):
    if k[0] == 'L':
        return [k[3]]
    r = []
    for c in k[2]:
        r.extend(_sp(c))
    return sorted(r)


def _unbin(k):
    if k[0] == 'L':
        return [k]
    ks = []
    for c in k[2]:
        ks.extend(_unbin(c))
    if k[1].startswith('@'):
        return ks
    return [('N', k[1], tuple(sorted(ks, key=lambda x: _sp(x)[0])))]


def heads_ok(m, n, ip, lp, hs):
    for i in range(m):
        k = sum(1 for x in ip if x == i) + sum(1 for x in lp if x == i)
        if not hs[i] < k:
            return False
    return True


def binarize(m, n, bare, marked, lab=0, **kw):
    ip, lp = e1_get(kw, m, n)
    labels = [DLABELS[(lab + i) % len(DLABELS)] for i in range(m)]
    if lab >= len(DLABELS):     # the virtual root keeps its usual label in half of the cases
        labels[0] = "VROOT"
    nodes, leaves = build_e1(m, n, ip, lp, labels=labels)
    maxar = max(len(x.children) for x in nodes)
    if marked:
        for i, nd in enumerate(nodes):
            ks = kids(nd)
            for j, c in enumerate(ks):
                c.data['head'] = (j == kw["h%d" % i])
        nodes[0].data['head'] = False
    orig = _mod(nodes[0])
    origlabels = dict((id(x), x.data['label']) for x in nodes)
    params = {'bare_bin_labels': True} if bare else {}
    try:
        out = transform.binarize(nodes[0], **params)
    except ValueError as e:
        if not marked and maxar > 2:
            return ""           # rejected, as documented
        return "binarize raised ValueError: %s" % e
    if not marked and maxar > 2:
        return "a node with %d children and no head marks was binarized instead of rejected" % maxar
    if out is not nodes[0]:
        return "binarize did not return the root"
    w = wellformed(out)
    if w:
        return "result not well formed: " + w
    for x in all_nodes(out):
        if len(x.children) > 2:
            return "node %s has %d children after binarization" % (x.data['label'], len(x.children))
    # added nodes are exactly the @-labelled ones, labelled with the category of the original node without co-index
    orig_ids = set(id(x) for x in nodes + leaves)
    for x in all_nodes(out):
        added = id(x) not in orig_ids
        if added != x.data['label'].startswith('@'):
            return "added node labelled %r / original node relabelled" % x.data['label']
        if added:
            p = x.parent
            while id(p) not in origlabels:
                p = p.parent
            want = "@" if bare else "@" + _no_coindex(origlabels[id(p)])
            if x.data['label'] != want:
                return "binarization node labelled %r, expected %r" % (x.data['label'], want)
    if _unbin(_mod(out)) != [orig]:
        return "removing the @-nodes does not restore the original tree"
    return ""


def collapse(m, n, **kw):
    ip, lp = e1_get(kw, m, n)
    nodes, leaves = build_e1(m, n, ip, lp, labels=LABELS[:m])
    orig = _mod(nodes[0])

    def chain_label(x):
        parts = [x.data['label']]
        while len(x.children) == 1:
            x = x.children[0]
            parts.append(x.data['label'])
        return "+".join(parts), x

    def expect(x):
        lab, bottom = chain_label(x)
        if not bottom.children:
            return ('L', lab, bottom.data['word'], bottom.data['num'])
        return ('N', lab, tuple(sorted((expect(c) for c in bottom.children), key=lambda k: _sp(k)[0])))
    exp = expect(nodes[0])
    c = transform.collapse_unary_chains(nodes[0])
    if c is not nodes[0]:
        return "collapse did not return the root"
    w = wellformed(c)
    if w:
        return "collapsed tree not well formed: " + w
    for x in all_nodes(c):
        if len(x.children) == 1:
            return "unary node %s left after collapsing" % x.data['label']
    if _mod(c) != exp:
        return "collapsed tree %r, expected %r" % (_mod(c), exp)
    u = transform.uncollapse_unary_chains(c)
    w = wellformed(u)
    if w:
        return "uncollapse: " + w
    if _mod(u) != orig:
        return "uncollapse gives %r, original %r" % (_mod(u), orig)
    return ""


def conds(tier):
    q = tier == "quick"
    cs = []
    for (m, n) in ([(1, 3), (1, 4), (2, 3), (2, 4), (3, 3)] if q else [(1, 3), (1, 4), (1, 5), (2, 3), (2, 4), (2, 5), (3, 3), (3, 4), (3, 5)]):
        hs = [P("h%d" % i, "int", 0, n) for i in range(m)]
        hpre = "_h.heads_ok(%d, %d, [%s], [%s], [%s])" % (m, n, ", ".join("ip%d" % i for i in range(1, m)),
                                                        ", ".join("lp%d" % j for j in range(1, n + 1)),
                                                        ", ".join("h%d" % i for i in range(m)))
        sh = ["bare"] + (["lp1"] if m ** n >= 64 else []) + (["lp2"] if m ** n >= 200 else [])
        cs.append(Cond("binarize-m%d-n%d" % (m, n), "harness.c14:binarize", e1_params(m, n) + hs + [P("bare", "bool"), P("lab", "int", 0, 2 * len(DLABELS))],
                       fixed={"m": m, "n": n, "marked": True}, pre=[e1_wf_expr(m, n), hpre], shard=sh,
                       timeout=600 if q else 3000, functions=FUNCS[:2] + FUNCS[4:]))
    for (m, n) in ([(1, 2), (1, 3), (2, 4)] if q else [(1, 2), (1, 3), (2, 4), (3, 4)]):
        cs.append(Cond("unmarked-m%d-n%d" % (m, n), "harness.c14:binarize", e1_params(m, n) + [P("bare", "bool")],
                       fixed={"m": m, "n": n, "marked": False}, pre=[e1_wf_expr(m, n)], timeout=300 if q else 1200,
                       functions=FUNCS[:2], note="no head marks: arity > 2 must be rejected, arity <= 2 unchanged"))
    for (m, n) in ([(2, 1), (3, 1), (4, 1), (3, 2), (4, 2), (3, 3)] if q else [(2, 1), (3, 1), (4, 1), (5, 1), (3, 2), (4, 2), (5, 2), (3, 3), (4, 3), (4, 4)]):
        cs.append(Cond("collapse-m%d-n%d" % (m, n), "harness.c14:collapse", e1_params(m, n), fixed={"m": m, "n": n},
                       pre=[e1_wf_expr(m, n)], shard=(["lp1"] if m ** n >= 64 else []), timeout=600 if q else 3000,
                       functions=FUNCS[2:4]))
    return cs
