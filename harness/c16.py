"""C16 Gap-degree analysis agrees with the set-based definition everywhere it is used."""
import argparse
import re
from vlib.cond import Cond, P
from trees import trees, treeanalysis, treeoutput, grammar, grammaranalysis
from harness import stubs
from harness.symtree import (skeletons, pos_params, distinct_expr, build_e1, cover, e1_params, e1_get,
                             e1_wf_expr, wf, runs, all_nodes)
from harness.formats import spec_e1, spec_nodes, span, enc_export, spec_tokens

FUNCS = ["treeanalysis.gap_degree_node", "treeanalysis.gap_degree", "trees.terminal_blocks",
         "treeanalysis.GapDegree/PosTags/SentenceCount", "treeanalysis.run", "treeanalysis.disco_order",
         "treeanalysis.gap_type", "treeoutput.brackets", "grammar.extract", "grammaranalysis.is_contextfree"]
ASSUMPTIONS = ["gaps: token positions are arbitrary pairwise distinct integers (unbounded), shapes up to the bound",
               "run: corpora are written in export format by the harness encoder and read through the in-memory "
               "file system stubs; the summary is parsed from the captured stdout text"]
OUTSIDE = ["corpora of more than 2 sentences", "shapes beyond the bound"]
SK = {}


def _sk(mmax, n):
    if (mmax, n) not in SK:
        SK[(mmax, n)] = skeletons(mmax, n)
    return SK[(mmax, n)]


def gaps(mmax, n, sk, **kw):
    m, ip, lp = _sk(mmax, n)[sk]
    nums = [kw["p%d" % j] for j in range(1, n + 1)]
    nodes, leaves = build_e1(m, n, ip, lp, nums=nums)
    best = 0
    for x in nodes:
        rs = runs(cover(x))
        g = treeanalysis.gap_degree_node(x)
        if g != len(rs) - 1:
            return "gap_degree_node %r, runs %d" % (g, len(rs))
        bl = trees.terminal_blocks(x)
        if [[t.data['num'] for t in b] for b in bl] != rs:
            return "terminal_blocks differ from the maximal runs"
        if treeanalysis.has_gaps(x) != (len(rs) > 1):
            return "has_gaps wrong"
        best = max(best, len(rs) - 1)
    for l in leaves:
        if treeanalysis.gap_degree_node(l) != 0:
            return "token with gap degree"
    if treeanalysis.gap_degree(nodes[0]) != best:
        return "gap_degree is not the maximum over the nodes"
    return ""


def agree(m, n, **kw):
    """gap degree > 0  <=>  bracket writer refuses  <=>  extracted grammar is not context-free"""
    ip, lp = e1_get(kw, m, n)
    nodes, leaves = build_e1(m, n, ip, lp)
    refdeg = max(len(runs(cover(x))) - 1 for x in nodes)
    ref = refdeg > 0
    got = treeanalysis.gap_degree(nodes[0])
    if got != refdeg:
        return "gap_degree of the tree is %r, the maximum over its nodes is %r" % (got, refdeg)
    out = stubs.Sink()
    refused = False
    try:
        treeoutput.brackets(nodes[0], out)
    except ValueError:
        refused = True
    if refused != ref:
        return "bracket writer refuses: %r, discontinuous: %r" % (refused, ref)
    nodes, leaves = build_e1(m, n, ip, lp)
    g = grammar.extract(nodes[0], {}, {})
    if grammaranalysis.is_contextfree(g) == ref:
        return "is_contextfree %r, discontinuous: %r" % (not ref, ref)
    return ""


def after(m, n, **kw):
    """the analysis agrees with the set-based definition also on a tree that was analysed before and then transformed
    (head marking, boyd_split, raising): every node, before and after each step"""
    from trees import transform
    ip, lp = e1_get(kw, m, n)
    nodes, leaves = build_e1(m, n, ip, lp)
    root = nodes[0]

    def check(what):
        best = 0
        for x in all_nodes(root):
            if not x.children:
                continue
            rs = runs(cover(x))
            if treeanalysis.gap_degree_node(x) != len(rs) - 1:
                return "%s: gap_degree_node(%s) = %r, runs %d" % (what, x.data['label'], treeanalysis.gap_degree_node(x), len(rs))
            if [[t.data['num'] for t in b] for b in trees.terminal_blocks(x)] != rs:
                return "%s: terminal_blocks(%s) differ from the runs" % (what, x.data['label'])
            best = max(best, len(rs) - 1)
        if treeanalysis.gap_degree(root) != best:
            return "%s: gap_degree %r, maximum over nodes %r" % (what, treeanalysis.gap_degree(root), best)
        return ""
    r = check("fresh tree")
    if r:
        return r
    root = transform.negra_mark_heads(root)
    root = transform.boyd_split(root)
    r = check("after boyd_split")
    if r:
        return r
    root = transform.raising(root)
    return check("after raising")


def _args(src, task):
    return argparse.Namespace(src=src, task=task, src_format="export", src_enc="utf-8", src_opts=[])


def run(m, n, two, task, swap=False, api=False, **kw):
    """analysis tasks through the command-line entry point on a corpus of 1-2 sentences"""
    stubs.install()
    ip, lp = e1_get(kw, m, n)
    s1 = spec_e1(m, n, ip, lp, pos=["A", "B", "A", "C", "B"][:n])
    sents = [(1, s1)]
    if two:
        s2 = ("N", "VROOT", "--", (("N", "X", "--", (("T", "a", "A", "--", "--", "--", 1), ("T", "c", "D", "--", "--", "--", 3))),
                                  ("T", "b", "B", "--", "--", "--", 2)))
        sents.append((2, s2))
        if swap:
            sents = [(1, s2), (2, s1)]      # the discontinuous sentence first
    stubs.put("c.export", enc_export(sents))
    tname = ["GapDegree", "PosTags", "SentenceCount"][task]
    if api:
        # the same task through the API: one task instance, run(tree) per tree, done()
        from harness.formats import build_tree
        inst = getattr(treeanalysis, tname)()
        for sid, s in sents:
            inst.run(build_tree(s, sid=sid))
        inst.done()
    else:
        treeanalysis.run(_args("c.export", tname))
    text = stubs.SYS.stdout.text()
    ncons, pernode, pertree, tags = 0, {}, {}, set()
    for sid, s in sents:
        tg = 0
        for x in spec_nodes(s):
            if x[0] == "N":
                ncons += 1
                g = len(runs(span(x))) - 1
                pernode[g] = pernode.get(g, 0) + 1
                tg = max(tg, g)
            else:
                tags.add(x[2])
        pertree[tg] = pertree.get(tg, 0) + 1
    if task == 2:
        mo = re.search(r"(\d+) sentences", text)
        if not mo or int(mo.group(1)) != len(sents):
            return "SentenceCount reports %r for %d sentences" % (text, len(sents))
        return ""
    if task == 1:
        mo = re.search(r"(\d+) different tags", text)
        if not mo or int(mo.group(1)) != len(tags):
            return "PosTags reports %r for %d tags" % (text, len(tags))
        return ""
    mo = re.search(r"(\d+) trees, (\d+) nodes", text)
    if not mo or int(mo.group(1)) != len(sents) or int(mo.group(2)) != ncons:
        return "GapDegree totals %r, expected %d trees, %d nodes" % (mo and mo.groups(), len(sents), ncons)
    gt, gn = {}, {}
    for mo in re.finditer(r"Gap degree\s+(\d+):\s+(\d+) (trees|nodes) \(\s*([\d.]+)%\)", text):
        (gt if mo.group(3) == "trees" else gn)[int(mo.group(1))] = int(mo.group(2))
    if gt != pertree:
        return "per-tree gap degrees %r, expected %r" % (gt, pertree)
    if gn != pernode:
        return "per-node gap degrees %r, expected %r" % (gn, pernode)
    if sum(gt.values()) != len(sents) or sum(gn.values()) != ncons:
        return "per-degree counts do not sum to the totals"
    return ""


def order(m, n, mode, **kw):
    """continuous reordering of a binarized tree: a permutation of the tokens, identity if continuous"""
    ip, lp = e1_get(kw, m, n)
    nodes, leaves = build_e1(m, n, ip, lp)
    res = treeanalysis.disco_order(nodes[0], ["left", "rightd"][mode])
    got = [t.data['num'] for t in res]
    if sorted(got) != list(range(1, n + 1)):
        return "disco_order returns %r, not a permutation of the tokens" % got
    if any(t.children for t in res):
        return "disco_order returns a constituent"
    cont = max(len(runs(cover(x))) - 1 for x in nodes) == 0
    if cont and got != list(range(1, n + 1)):
        return "continuous tree reordered to %r" % got
    return ""


def binarized(m, n, ip, lp):
    for i in range(m):
        k = sum(1 for x in ip if x == i) + sum(1 for x in lp if x == i)
        if k > 2:
            return False
    return True


def conds(tier):
    q = tier == "quick"
    cs = []
    for (mmax, n, to) in ([(3, 3, 100), (3, 4, 300)] if q else [(3, 4, 600), (4, 4, 900)]):
        ns = len(_sk(mmax, n))
        cs.append(Cond("gaps-m%d-n%d" % (mmax, n), "harness.c16:gaps", [P("sk", "int", 0, ns)] + pos_params(n),
                       fixed={"mmax": mmax, "n": n}, pre=[distinct_expr(n)], shard=["sk"], timeout=to,
                       functions=FUNCS[:3], note="%d skeletons; positions arbitrary distinct ints" % ns))
    for (m, n) in ([(2, 3), (3, 3), (3, 4), (2, 5), (3, 5)] if q else [(2, 3), (3, 3), (3, 4), (4, 4), (2, 5), (3, 5)]):
        cs.append(Cond("agree-m%d-n%d" % (m, n), "harness.c16:agree", e1_params(m, n), fixed={"m": m, "n": n},
                       pre=[e1_wf_expr(m, n)], shard=(["lp1"] if m * n >= 12 else []) + (["lp2"] if m * n >= 15 else []),
                       timeout=600 if q else 3000, functions=FUNCS[0:2] + FUNCS[7:]))
        if (m, n) in ((3, 3), (3, 4), (2, 5)) or not q:
            cs.append(Cond("after-m%d-n%d" % (m, n), "harness.c16:after", e1_params(m, n), fixed={"m": m, "n": n},
                           pre=[e1_wf_expr(m, n)], shard=(["lp1"] if m * n >= 12 else []) + (["lp2"] if m * n >= 15 else []),
                           timeout=600 if q else 3000, functions=FUNCS[:3] + ["transform.boyd_split", "transform.raising"],
                           note="analysis before and after transformations of the same tree"))
    for (m, n) in ([] if q else []):
        pass
        cs.append(Cond("order-m%d-n%d" % (m, n), "harness.c16:order", e1_params(m, n) + [P("mode", "int", 0, 2)],
                       fixed={"m": m, "n": n}, pre=[e1_wf_expr(m, n), e1_wf_expr(m, n).replace("_h.wf", "_h.binarized")], shard=["mode"] + (["lp1"] if m * n >= 12 else []),
                       timeout=600 if q else 3000, functions=FUNCS[5:7]))
    for (m, n) in ([(2, 2), (3, 3)] if q else [(2, 2), (3, 3), (3, 4)]):
        cs.append(Cond("run-m%d-n%d" % (m, n), "harness.c16:run",
                       e1_params(m, n) + [P("two", "bool"), P("task", "int", 0, 3), P("swap", "bool"), P("api", "bool")], fixed={"m": m, "n": n},
                       pre=[e1_wf_expr(m, n), "two or not swap"], shard=["task", "two"], timeout=600 if q else 3000, functions=FUNCS[3:5]))
    return cs
