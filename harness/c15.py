"""C15 Head marking selects exactly one head child per constituent, as the rule says."""
from vlib.cond import Cond, P
from trees import trees, transform, transformconst
from harness.symtree import (e1_params, e1_get, e1_wf_expr, wf, build_e1, kids, mknode, mkleaf, attach, all_nodes)

FUNCS = ["transform.negra_mark_heads", "transform.mark_heads_by_rules", "transformconst.get_headpos_by_rule",
         "trees.parse_label", "trees.children"]
ASSUMPTIONS = ["rule tables are read from /repo's transformconst at run time; a category counts as 'listed' when it is one "
               "of the space-separated entries of any priority list of the parent's rule",
               "unlisted categories come from {XX, YY, ZZ} (checked at run time not to occur in the rule)"]
ASSUMPTIONS += ["marking is also applied to trees that carry head marks from an earlier pass (selector pm: none, all True, all "
                "False, alternating, marked by mark_heads_by_rules with the ptb preset) and, for rule-based marking, after an earlier "
                "call in the same process on a tree with the same labels under the other or the same preset (selector prior)"]
OUTSIDE = ["the NeGra parent category '-' (equal to the label separator)", "constituents with more than 4 children", "rule files (not implemented by the tool)"]
EDGES = ["HD", "NK", "--", "SB"]
PRESETS = ["negra", "ptb"]
DECO = ["%s", "%s-SBJ", "%s-1", "%s=2", "%s-SBJ-1", "%s'"]


def _tables():
    return {"negra": transformconst.HEAD_RULES_NEGRA, "ptb": transformconst.HEAD_RULES_PTB}


def _listed(rule):
    out = []
    for _direction, prio in rule:
        for c in prio.split():
            if c not in out:
                out.append(c)
    return out


def _parents(preset):
    t = _tables()[preset]
    # the NeGra table has a category "-" (the label separator itself): decorated variants of it are not
    # parseable labels, so it is left out (stated in ASSUMPTIONS)
    return [p for p in sorted(t) if _listed(t[p]) and "-" not in p and "=" not in p]


def _check_one_head(root):
    if root.data.get('head') is not False:
        return "root is marked (%r)" % root.data.get('head')
    for x in all_nodes(root):
        if x.children:
            hs = [c for c in x.children if c.data.get('head') is True]
            nh = [c for c in x.children if c.data.get('head') is False]
            if len(hs) != 1 or len(hs) + len(nh) != len(x.children):
                return "constituent %s has %d head children (%d marked non-head of %d)" % (
                    x.data['label'], len(hs), len(nh), len(x.children))
    return ""


PREMARK = ["none", "all True", "all False", "alternating", "by mark_heads_by_rules(ptb)"]


def _premark(root, pm):
    """head marks left on the tree by an earlier pass (marking is applied to trees that were marked before, e.g.
    --trans mark_heads_by_rules negra_mark_heads)"""
    if pm == 0:
        return
    if pm == 4:
        transform.mark_heads_by_rules(root, mark_heads_preset="ptb")
        return
    i = 0
    for x in all_nodes(root):
        if x.parent is not None:
            x.data['head'] = {1: True, 2: False, 3: i % 2 == 0}[pm]
            i += 1


def negra_one(k, pm=0, **kw):
    """one constituent with k children, all edge assignments"""
    root = mknode("VROOT")
    x = mknode("NP", "--")
    attach(root, x)
    es = [EDGES[kw["e%d" % j]] for j in range(1, k + 1)]
    cs = []
    for j in range(k):
        c = mkleaf("w%d" % (j + 1), "P", j + 1, es[j])
        attach(x, c, rev=True)
        cs.append(c)
    root.data['sid'] = 1
    _premark(root, pm)
    out = transform.negra_mark_heads(root)
    if out is not root:
        return "did not return the root"
    r = _check_one_head(root)
    if r:
        return r
    if "HD" in es:
        want = es.index("HD")
    elif "NK" in es:
        want = max(j for j in range(k) if es[j] == "NK")
    else:
        want = 0
    if cs[want].data['head'] is not True:
        return "edges %s: child %d should be the head" % (es, want + 1)
    return ""


def negra_tree(m, n, pm=0, **kw):
    ip, lp = e1_get(kw, m, n)
    edges = ["--"] + [EDGES[kw["e%d" % j] % 3] for j in range(1, m + n)]
    nodes, leaves = build_e1(m, n, ip, lp, edges=edges, rev=True)
    _premark(nodes[0], pm)
    transform.negra_mark_heads(nodes[0])
    r = _check_one_head(nodes[0])
    if r:
        return r
    for x in nodes:
        ks = kids(x)
        es = [c.data['edge'] for c in ks]
        if "HD" in es:
            want = es.index("HD")
        elif "NK" in es:
            want = max(j for j in range(len(es)) if es[j] == "NK")
        else:
            want = 0
        if ks[want].data['head'] is not True:
            return "constituent %s with child edges %s: child %d should be the head" % (x.data['label'], es, want + 1)
    return ""


def _rules_tree(plab, labs):
    root = mknode("VROOT")
    x = mknode(plab)
    attach(root, x)
    cs = []
    for j, lab in enumerate(labs):
        c = mkleaf("w%d" % (j + 1), lab, j + 1)
        attach(x, c, rev=True)
        cs.append(c)
    root.data['sid'] = 1
    return root, cs


def rules(ps, par, k, hp, lc, dp, dc, up, oth, prior=0, pm=0):
    """exactly one child (position hp) has a category listed in the rule of the parent category
    (prior: an earlier call in the same process on a tree with the same labels, 1 = other preset, 2 = same preset,
    3 = other preset with the listed child at another position; pm: head marks left on the tree by an earlier pass)"""
    preset = PRESETS[ps]
    table = _tables()[preset]
    parents = _parents(preset)
    pcat = parents[par % len(parents)]
    listed = _listed(table[pcat])
    ccat = listed[lc % len(listed)]
    unl = [c for c in ["xx", "yy", "zz"] if c not in listed]
    plab = DECO[dp] % (pcat.upper() if up else pcat)
    labs = []
    for j in range(k):
        if j == hp:
            labs.append(DECO[dc] % (ccat.upper() if up else ccat))
        else:
            labs.append(unl[(j + oth) % len(unl)].upper())
    if prior:
        plabs = labs if prior < 3 else labs[::-1]
        proot, _pcs = _rules_tree(plab, plabs)
        try:
            transform.mark_heads_by_rules(proot, mark_heads_preset=PRESETS[1 - ps] if prior != 2 else preset)
        except Exception as e:      # noqa
            return "earlier call with the other preset failed: %s: %s" % (type(e).__name__, e)
    root, cs = _rules_tree(plab, labs)
    _premark(root, pm)
    out = transform.mark_heads_by_rules(root, mark_heads_preset=preset)
    if out is not root:
        return "did not return the root"
    r = _check_one_head(root)
    if r:
        return r
    if cs[hp].data['head'] is not True:
        return "%s preset: %s -> %s: child %d (the only listed category) is not the head%s" % (
            preset, plab, [c.data['label'] for c in cs], hp + 1,
            (" (after an earlier call, kind %d)" % prior) if prior else "")
    return ""


def rules_any(ps, par, k, up, c1, c2, c3):
    """every parent category of the table (also those with an empty priority list) and an unknown one: exactly one head"""
    preset = PRESETS[ps]
    table = _tables()[preset]
    cats = sorted(table) + ["zzunknown"]
    pcat = cats[par % len(cats)]
    pool = ["xx", "nn", "vp", "yy"]
    root = mknode("VROOT")
    x = mknode(pcat.upper() if up else pcat)
    attach(root, x)
    for j, c in enumerate([c1, c2, c3][:k]):
        attach(x, mkleaf("w%d" % (j + 1), pool[c].upper(), j + 1), rev=True)
    root.data['sid'] = 1
    out = transform.mark_heads_by_rules(root, mark_heads_preset=preset)
    if out is not root:
        return "did not return the root"
    r = _check_one_head(root)
    if r:
        return "%s preset, parent %s: %s" % (preset, pcat, r)
    return ""


def reject(case):
    root = mknode("VROOT")
    attach(root, mkleaf("a", "NN", 1))
    root.data['sid'] = 1
    params = [{"mark_heads_preset": "tiger"}, {}, {"mark_heads_preset": "negra", "mark_heads_rulefile": "f"},
              {"mark_heads_preset": "negra"}][case]
    try:
        transform.mark_heads_by_rules(root, **params)
    except ValueError:
        return "" if case < 3 else "valid preset rejected"
    return "" if case == 3 else "unknown preset / missing or double rule source accepted: %r" % params


def conds(tier):
    q = tier == "quick"
    cs = []
    for k in ([1, 2, 3, 4] if q else [1, 2, 3, 4, 5]):
        cs.append(Cond("negra-k%d" % k, "harness.c15:negra_one", [P("e%d" % j, "int", 0, 4) for j in range(1, k + 1)] + [P("pm", "int", 0, 5)],
                       fixed={"k": k}, shard=(["e1"] if k >= 4 else []) + (["e2"] if k >= 5 else []),
                       timeout=300 if q else 1500, functions=FUNCS[:1]))
    for (m, n) in ([(2, 2), (2, 3), (3, 2)] if q else [(2, 3), (3, 2), (3, 3), (2, 4)]):
        es = [P("e%d" % j, "int", 0, 3) for j in range(1, m + n)]
        cs.append(Cond("negratree-m%d-n%d" % (m, n), "harness.c15:negra_tree", e1_params(m, n) + es + [P("pm", "int", 0, 5)],
                       fixed={"m": m, "n": n}, pre=[e1_wf_expr(m, n), "pm == (e1 + lp1) % 5"], shard=["e1"] + (["e2"] if m + n >= 5 else []) +
                       (["lp1"] if m + n >= 6 else []),
                       timeout=400 if q else 2400, functions=FUNCS[:1], note="edges from HD, NK, -- on whole trees"))
    npar = dict((p, len(_parents(p))) for p in PRESETS)
    for ps in ([0] if q else [0, 1]):
        kmax = 2
        for k in range(1, kmax + 1):
            cs.append(Cond("rules-%s-k%d" % (PRESETS[ps], k), "harness.c15:rules",
                           [P("par", "int", 0, npar[PRESETS[ps]]), P("hp", "int", 0, k), P("lc", "int", 0, 6 if q else 20),
                            P("dp", "int", 0, 3 if q else 4), P("dc", "int", 0, 3 if q else 4), P("up", "bool"),
                            P("oth", "int", 0, 1), P("prior", "int", 0, 4), P("pm", "int", 0, 5)],
                           fixed={"ps": ps, "k": k}, pre=["_h.lc_ok(%d, par, lc)" % ps, "pm == (par + lc) % 5",
                                                          "prior == (par + lc + dc) % 4" if q else "True"], shard=["hp", "up", "dp"],
                           timeout=600 if q else 3000, functions=FUNCS[1:],
                           note="parent = every category of the preset with a non-empty rule; listed child category = "
                                "each of the first %d listed categories" % (6 if q else 20)))
    for ps in ([0] if q else [0, 1]):
        ncat = len(_tables()[PRESETS[ps]]) + 1
        cs.append(Cond("rulesany-%s" % PRESETS[ps], "harness.c15:rules_any",
                       [P("par", "int", 0, ncat), P("k", "int", 1, 4), P("up", "bool"), P("c1", "int", 0, 4), P("c2", "int", 0, 4),
                        P("c3", "int", 0, 2 if q else 4)],
                       fixed={"ps": ps}, pre=["(k >= 2 or c2 == 0) and (k >= 3 or c3 == 0)"] + (["c2 <= 1 or k == 2"] if q else []),
                       shard=["k", "up"], timeout=600 if q else 3000, functions=FUNCS[1:],
                       note="all %d parent categories of the table plus an unknown one" % (ncat - 1)))
    cs.append(Cond("reject", "harness.c15:reject", [P("case", "int", 0, 4)], timeout=60, functions=FUNCS[1:2]))
    return cs


def lc_ok(ps, par, lc):
    preset = PRESETS[ps]
    parents = _parents(preset)
    return lc < len(_listed(_tables()[preset][parents[par]]))
