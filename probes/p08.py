from trees import grammar, grammarconst

def lhs_total(g, sym):
    tot = 0
    for f in g:
        if f[0] == sym:
            for l in g[f]:
                for v in g[f][l]:
                    tot = tot + g[f][l][v]
    return tot

def rhs_total(g, sym):
    tot = 0
    for f in g:
        k = sum(1 for s in f[1:] if s == sym)
        if k:
            for l in g[f]:
                for v in g[f][l]:
                    tot = tot + k * g[f][l][v]
    return tot

def markov_counts(c1: int, c2: int, c3: int) -> bool:
    """
    pre: c1 >= 1 and c2 >= 1 and c3 >= 1
    post: _
    """
    lin3 = (((0, 0), (1, 0), (2, 0)),)
    g = {('X', 'A', 'B', 'C'): {lin3: {('X1', 'S1'): c1, ('X1', 'Y1', 'S1'): c2}},
         ('Y', 'X'): {(((0, 0),),): {('Y1', 'S1'): c3}}}
    b = grammar.binarize(g, reordering=grammar.reordering_none, markov_opts={'v': 1, 'h': 1})
    if lhs_total(b, 'X') != c1 + c2:
        return False
    for f in b:
        for s in f:
            if s.startswith('@') and lhs_total(b, s) != rhs_total(b, s):
                return False
    return True
