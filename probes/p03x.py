import argparse, io as _realio, sys
from trees import trees, treeinput, treeoutput, transform, misc

class MemFS:
    files = {}
class _W:
    def __init__(self, name, enc):
        self.name = name; self.enc = enc; self.buf = []
    def write(self, s):
        self.buf.append(s); return len(s)
    def __enter__(self): return self
    def __exit__(self, *a):
        MemFS.files[self.name] = "".join(self.buf).encode(self.enc or 'utf-8'); return False
class _R:
    def __init__(self, text):
        self.text = text; self.pos = 0
    def read(self, n=-1):
        if n < 0:
            c = self.text[self.pos:]; self.pos = len(self.text); return c
        c = self.text[self.pos:self.pos + n]; self.pos += n; return c
    def __iter__(self):
        return iter(self.text.splitlines(True))
    def __enter__(self): return self
    def __exit__(self, *a): return False
class ShimIO:
    StringIO = _realio.StringIO
    @staticmethod
    def open(name, mode='r', encoding=None, **k):
        if 'w' in mode:
            return _W(name, encoding)
        data = MemFS.files[name]
        if 'b' in mode:
            return _realio.BytesIO(data)
        return _R(data.decode(encoding or 'utf-8'))
class ShimOSPath:
    @staticmethod
    def isdir(p): return False
    @staticmethod
    def join(*a): return "/".join(a)
class ShimOS:
    path = ShimOSPath
    @staticmethod
    def listdir(p): return []
class _Null:
    def write(self, s): return 0
    def flush(self): pass

def _print(*args, sep=' ', end='\n', file=None, flush=False):
    (file if file is not None else sys.stdout).write(sep.join(str(a) for a in args) + end)
treeoutput.print = _print
treeinput.io = ShimIO
transform.io = ShimIO
transform.os = ShimOS

FM_IN = ['export', 'brackets', 'discobrackets', 'tigerxml']
FM_OUT = ['export', 'brackets', 'discobrackets', 'tigerxml', 'terminals']
XML = """<?xml version='1.0'?>
<corpus>
<body>
<s id="s5">
<graph root="0">
  <terminals>
    <t id="1" word="a&amp;" lemma="--" pos="P" morph="--" />
    <t id="2" word="b" lemma="--" pos="Q" morph="--" />
  </terminals>
  <nonterminals>
    <nt id="500" cat="X">
      <edge label="--" idref="1" />
    </nt>
    <nt id="0" cat="VROOT">
      <edge label="--" idref="500" />
      <edge label="--" idref="2" />
    </nt>
  </nonterminals>
</graph>
</s>
</body>
</corpus>"""
EXPORT = "#BOS 5\na\t\t\tP\t--\t\t--\t500\nb\t\t\tQ\t--\t\t--\t0\n#500\t\t\tX\t--\t\t--\t0\n#EOS 5\n"

def conv(a: int, b: int) -> bool:
    """
    pre: 0 <= a < 1 and 0 <= b < 5
    post: _
    """
    MemFS.files = {'src': XML.encode('utf-8')}
    args = argparse.Namespace(src='src', dest='dst', counting=100, trans=[], params=[], src_format='tigerxml',
                              src_enc='utf-8', src_opts=['quiet'], dest_format=FM_OUT[b], dest_enc='utf-8', dest_opts=[], split='')
    old = sys.stderr
    sys.stderr = _Null()
    try:
        transform.run(args)
    finally:
        sys.stderr = old
    return len(MemFS.files['dst']) > 0 and (b != 4 or MemFS.files['dst'] == b'a& b \n')
