from typing import List
from trees import trees, treeanalysis

def build(m: int, n: int, ip: List[int], lp: List[int]):
    nodes = []
    for i in range(m):
        t = trees.Tree(trees.make_node_data())
        t.data['label'] = 'X%d' % i
        t.data['edge'] = '--'
        nodes.append(t)
    for i in range(1, m):
        p = nodes[ip[i-1]]
        nodes[i].parent = p
        p.children.append(nodes[i])
    leaves = []
    for j in range(n):
        t = trees.Tree(trees.make_node_data())
        t.data['label'] = 'P'
        t.data['word'] = 'w%d' % j
        t.data['edge'] = '--'
        t.data['num'] = j + 1
        p = nodes[lp[j]]
        t.parent = p
        p.children.append(t)
        leaves.append(t)
    return nodes, leaves

def wf(m, n, ip, lp):
    if len(ip) != m - 1 or len(lp) != n:
        return False
    for i in range(1, m):
        if not (0 <= ip[i-1] < i):
            return False
    for j in range(n):
        if not (0 <= lp[j] < m):
            return False
    # every internal node has a child
    for i in range(m):
        if not (any(ip[k-1] == i for k in range(i+1, m)) or any(lp[j] == i for j in range(n))):
            return False
    return True

def ref_gaps(nums):
    nums = sorted(nums)
    return sum(1 for a, b in zip(nums, nums[1:]) if b != a + 1)

def cover(node):
    if not node.children:
        return [node.data['num']]
    r = []
    for c in node.children:
        r.extend(cover(c))
    return r

def gapdeg_ok(ip: List[int], lp: List[int]) -> bool:
    """
    pre: len(ip) == 2 and len(lp) == 4
    pre: wf(3, 4, ip, lp)
    post: _
    """
    nodes, leaves = build(3, 4, ip, lp)
    for nd in nodes:
        if treeanalysis.gap_degree_node(nd) != ref_gaps(cover(nd)):
            return False
        blocks = trees.terminal_blocks(nd)
        if len(blocks) != ref_gaps(cover(nd)) + 1:
            return False
    return treeanalysis.gap_degree(nodes[0]) == max(ref_gaps(cover(nd)) for nd in nodes)
