import io, sys, tempfile, os
from trees import trees, treeinput, treeoutput, transform, treeanalysis, grammar, transitions
from trees.treeoutput import parse_split_specification as pss
def rd(fmt, text, **p):
    with tempfile.NamedTemporaryFile('w', delete=False, suffix='.txt') as f:
        f.write(text); n=f.name
    p.setdefault('quiet', True)
    try:
        return list(getattr(treeinput, fmt)(n, 'utf8', **p))
    finally:
        os.remove(n)
def show(t, ind=0):
    print(' '*ind, t.data.get('label'), t.data.get('word'), t.data.get('num'), t.data.get('edge'), t.data.get('lemma'), t.data.get('morph'), t.data.get('sid'))
    for c in trees.children(t): show(c, ind+2)
def wr(fmt, t, **p):
    s = io.StringIO()
    getattr(treeoutput, fmt)(t, s, **p)
    return s.getvalue()

print("split:", end=' ')
try: print(pss("29%_rest", 100))
except Exception as e: print("ERR", e)
bad=[(p,s) for p in range(101) for s in range(0,201) if pss("%d%%_rest"%p, s)[0] != p*s//100]
print(len(bad), bad[:10])

ts = rd('brackets', "(S (A a) (B b))\n(T (NP-SBJ-1 (C c)))\n")
for t in ts: show(t)
print("--- brackets -> export4")
try: print(wr('export', ts[0], export_four=True))
except Exception as e: print("ERR", repr(e))
ts = rd('brackets', "(S (A a) (B b))\n")
try: print(wr('tigerxml', ts[0]))
except Exception as e: print("ERR", repr(e))
ts = rd('brackets', "( (S (A a) (B b)))\n")
show(ts[0])
try: print(wr('export', ts[0]))
except Exception as e: print("ERR", repr(e))
ts = rd('brackets', "( (S (A a) (B b)))\n")
try: print(wr('brackets', ts[0], gf=True))
except Exception as e: print("ERR", repr(e))
