import itertools, collections
from gen import *
from trees import transform, trees
WORDS = ['a', ',', '``', "''"]
def snapshot(nodes, leaves):
    return {id(x): (id(x.parent) if x.parent is not None else None) for x in nodes + leaves}
fails = collections.Counter(); ex = {}; tot = 0
for (m, n) in [(1,2),(2,2),(2,3),(3,3),(2,4),(3,4)]:
    for ip, lp in shapes(m, n):
        for ws in itertools.product(WORDS, repeat=n):
            for name in ('punctuation_verylow', 'punctuation_root', 'punctuation_symetrify'):
                nodes, leaves = build(m, n, ip, lp, words=ws)
                before = br(nodes[0]); par0 = snapshot(nodes, leaves)
                tot += 1
                try:
                    out = getattr(transform, name)(nodes[0])
                    r = wellformed(out)
                    par1 = snapshot(nodes, leaves)
                    root = id(nodes[0])
                    punct = lambda l: l.data['word'] in trees.PUNCT
                    pair = lambda l: l.data['word'] in trees.PAIRPUNCT
                    if r is None and out is not nodes[0]: r = "returned other"
                    if r is None:
                        moved = [x for x in nodes + leaves if par0[id(x)] != par1[id(x)]]
                        if name == 'punctuation_verylow':
                            if any(not (x in leaves and punct(x)) for x in moved): r = "moved non-punct"
                            for i, l in enumerate(leaves):
                                if i > 0 and punct(l):
                                    sis = l.parent is leaves[i-1].parent
                                    allp = all((not c.children) and punct(c) for c in l.parent.children)
                                    if not (sis or allp): r = "not sister"
                        elif name == 'punctuation_root':
                            if any(not (x in leaves and punct(x)) for x in moved): r = "moved non-punct"
                            for l in leaves:
                                if punct(l) and not (l.parent is nodes[0] or len(l.parent.children) == 1): r = "punct not at root"
                        else:
                            if any(not (x in leaves and pair(x)) for x in moved): r = "moved non-pair"
                            for x in moved:
                                if not any(c is not x and (not c.children) and pair(c) for c in x.parent.children): r = "moved to constituent w/o pair punct"
                except Exception as e:
                    r = "EXC " + repr(e)[:60]
                if r: fails[(name, r)] += 1; ex.setdefault((name, r), before)
print(tot, fails)
for k in ex: print(k, ex[k])
