import itertools, io, contextlib, tempfile, os
from trees import trees, transform, treeinput
from trees.treeoutput import parse_split_specification as pss
with contextlib.redirect_stderr(io.StringIO()):
    try: print("neg:", pss("-5#_rest", 10))
    except Exception as e: print("neg ERR", repr(e))
    for s in ("", "5", "_", "5#_", "rest_rest", "abc#", "5.5%"):
        try: print(repr(s), pss(s, 10))
        except Exception as e: print(repr(s), "ERR", type(e).__name__)
# label roundtrip brute force
alpha = "A1-=#'*"
bad = []
for L in range(0, 7):
    for t in itertools.product(alpha, repeat=L):
        s = "".join(t)
        lab = trees.parse_label(s)
        out = trees.format_label(lab)
        if out != s:
            # allowed only if literal defaults present
            exp = s
            ok = False
            if lab.gf == "--" :
                ok = True
            if not ok: bad.append((s, out, lab.label, lab.gf, lab.gapindex, lab.coindex, lab.headmarker))
print(len(bad), bad[:10])
# with defaults explicit
for s in ["EMPTY-SBJ", "NP---1", "EMPTY", "NP--", "A---"]:
    lab = trees.parse_label(s); print(s, "->", repr(trees.format_label(lab)), repr(trees.format_label(lab, always_label=True, always_gf=True)), lab.label, lab.gf)
# substitute quiet idx 0
fn = tempfile.mktemp()
open(fn, 'w').write("1 0 ZZ\n")
def rd(text):
    f = tempfile.mktemp(); open(f,'w').write(text)
    return list(treeinput.brackets(f, 'utf8', quiet=True))
t = rd("(S (A a) (B b) (C c))\n")[0]
with contextlib.redirect_stdout(io.StringIO()):
    try:
        r = transform.substitute_terminals(t, terminalfile=fn, quiet=True)
        res = [x.data['word'] for x in trees.terminals(r)]
    except Exception as e: res = repr(e)
print("subst quiet idx0:", res)
