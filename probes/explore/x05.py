import itertools, collections
from gen import *
from trees import transform, trees, treeanalysis

def kids_sorted(t):
    return sorted(t.children, key=lambda c: cover(c)[0])

def ref_cont(t, headof):
    if not t.children:
        return ('L', t.data['label'], t.data['num'], ()), []
    h = headof[id(t)]
    items = []
    for c in t.children:
        k, r = ref_cont(c, headof)
        items.append((k, c is h))
        items.extend((x, False) for x in r)
    items.sort(key=lambda it: sp(it[0])[0])
    runs = [[items[0]]]
    for it in items[1:]:
        if sp(it[0])[0] == sp(runs[-1][-1][0])[-1] + 1:
            runs[-1].append(it)
        else:
            runs.append([it])
    keep = [r for r in runs if any(f for _, f in r)][0]
    raised = [k for r in runs if r is not keep for k, _ in r]
    return ('N', t.data['label'], None, tuple(k for k, _ in keep)), raised

def sp(k):
    if k[0] == 'L': return [k[2]]
    r = []
    for c in k[3]: r.extend(sp(c))
    return sorted(r)

def mod(t):
    if not t.children: return ('L', t.data['label'], t.data['num'], ())
    return ('N', t.data['label'], None, tuple(sorted((mod(c) for c in t.children), key=lambda k: sp(k)[0])))

fails = collections.Counter(); ex = {}
tot = 0
for (m, n) in [(2,2),(2,3),(3,3),(3,4),(4,4),(3,5)]:
    for ip, lp in shapes(m, n):
        nodes, leaves = build(m, n, ip, lp)
        arities = [len(nd.children) for nd in nodes]
        for hs in itertools.product(*[range(a) for a in arities]):
            nodes, leaves = build(m, n, ip, lp)
            headof = {}
            for nd, h in zip(nodes, hs):
                ks = kids_sorted(nd)
                for i, c in enumerate(ks):
                    c.data['head'] = (i == h)
                headof[id(nd)] = ks[h]
            nodes[0].data['head'] = False
            before = br(nodes[0])
            exp, raised = ref_cont(nodes[0], headof)
            assert not raised
            tot += 1
            try:
                out = transform.raising(transform.boyd_split(nodes[0]))
                r = wellformed(out)
                if r is None and mod(out) != exp:
                    r = "differs from reference"
                if r is None and treeanalysis.gap_degree(out) != 0:
                    r = "not continuous"
            except Exception as e:
                r = "EXC " + repr(e)[:70]
            if r:
                fails[r] += 1; ex.setdefault(r, (before, hs))
print(tot, fails, ex)
