import itertools, collections, tempfile, os, copy, io
from gen import *
from trees import trees, treeinput, treeoutput, treeanalysis
d = tempfile.mkdtemp()
def rd(fmt, text, **p):
    fn = os.path.join(d, 'f.' + fmt)
    open(fn, 'w', encoding='utf8').write(text)
    p.setdefault('quiet', True)
    return quiet(lambda: list(getattr(treeinput, fmt)(fn, 'utf8', **p)))
def wr(fmt, ts, **p):
    s = io.StringIO()
    getattr(treeoutput, fmt + '_begin')(s, **p)
    for t in ts: quiet(getattr(treeoutput, fmt), t, s, **p)
    getattr(treeoutput, fmt + '_end')(s, **p)
    return s.getvalue()
def fullmodel(t):
    if not t.children: return ('L', t.data['label'], t.data['word'], t.data['num'], t.data.get('edge'), t.data.get('lemma'), t.data.get('morph'))
    return ('N', t.data['label'], t.data.get('edge'), tuple(sorted((fullmodel(c) for c in t.children), key=lambda k: fspan(k)[0])))
def fspan(k):
    if k[0] == 'L': return [k[3]]
    r = []
    for c in k[3]: r.extend(fspan(c))
    return sorted(r)
WORDS = ['a', '(', '<&"', 'ä', 'b)c', 'x'*8]
fails = collections.Counter(); ex = {}; tot = 0
for (m, n) in [(1,1),(1,2),(2,2),(2,3),(3,3)]:
    for ip, lp in shapes(m, n):
        for ws in itertools.product(WORDS, repeat=n):
            if n == 3 and len(set(ws)) < 2: continue
            def mk():
                nodes, leaves = build(m, n, ip, lp, words=ws, edges=['--'] + ['HD', 'SB', 'OA', 'X', 'Y', 'Z'][:m + n - 1])
                nodes[0].data['sid'] = 7
                return nodes[0]
            src = mk()
            want = fullmodel(src)
            disc = treeanalysis.gap_degree(src) > 0
            for fmt in ('export', 'brackets', 'discobrackets', 'tigerxml'):
                if fmt == 'brackets' and disc: continue
                tot += 1
                try:
                    text = wr(fmt, [mk(), mk()])
                    back = rd(fmt, text)
                    r = None
                    if len(back) != 2: r = "count %d" % len(back)
                    else:
                        for b in back:
                            got = fullmodel(b)
                            w = want
                            if fmt in ('brackets', 'discobrackets'):
                                # no edges/lemma/morph in brackets; parens replaced
                                def strip(k, rep):
                                    if k[0] == 'L':
                                        wd = k[2]
                                        if rep:
                                            for a, bb in trees.BRACKETS.items(): wd = wd.replace(a, bb)
                                        return ('L', k[1], wd, k[3])
                                    return ('N', k[1], tuple(strip(c, rep) for c in k[3]))
                                got = strip(got, False); w = strip(w, True)
                            if got != w: r = "differs"
                            if b.data['sid'] != (7 if fmt in ('export', 'tigerxml') else None) and fmt in ('export','tigerxml'): r = r or "sid"
                except Exception as e:
                    r = "EXC " + repr(e)[:80]
                if r: fails[(fmt, r)] += 1; ex.setdefault((fmt, r), (br(src), text if 'text' in dir() else None))
print(tot, fails)
for k in ex: print(k, ex[k][0]); print(ex[k][1])
