import itertools, collections, io
from gen import *
from trees import transform, trees, treeanalysis, treeoutput, transformconst
fails = collections.Counter(); ex = {}; tot = 0
def note(k, b):
    fails[k] += 1; ex.setdefault(k, b)
def anc(x):
    r = []
    while x is not None: r.append(x); x = x.parent
    return r
def height(x):
    return 0 if not x.children else 1 + max(height(c) for c in x.children)
for (m, n) in [(1,1),(2,1),(1,2),(2,2),(2,3),(3,3),(3,4),(4,4)]:
    for ip, lp in shapes(m, n):
        for rev in (False, True):
            nodes, leaves = build(m, n, ip, lp)
            if rev:
                for nd in nodes: nd.children.reverse()
            allx = nodes + leaves; b = br(nodes[0]); tot += 1
            try:
                for x in allx:
                    ks = trees.children(x)
                    exp = sorted(x.children, key=lambda c: cover(c)[0])
                    if [id(k) for k in ks] != [id(k) for k in exp]: note("children", b)
                    if [t.data['num'] for t in trees.terminals(x)] != cover(x): note("terminals", b)
                    if [id(a) for a in trees.dominance(x)] != [id(a) for a in anc(x)]: note("dominance", b)
                    if x.parent is not None:
                        sib = sorted(x.parent.children, key=lambda c: cover(c)[0]); i = [id(s) for s in sib].index(id(x))
                        l = sib[i-1] if i > 0 else None; r = sib[i+1] if i + 1 < len(sib) else None
                        if trees.left_sibling(x) is not l: note("left_sibling", b)
                        if trees.right_sibling(x) is not r: note("right_sibling", b)
                    else:
                        if trees.left_sibling(x) is not None or trees.right_sibling(x) is not None: note("root sibling", b)
                pre = list(trees.preorder(nodes[0])); post = list(trees.postorder(nodes[0]))
                if sorted(map(id, pre)) != sorted(map(id, allx)) or sorted(map(id, post)) != sorted(map(id, allx)): note("traversal set", b)
                pi = {id(x): i for i, x in enumerate(pre)}; qi = {id(x): i for i, x in enumerate(post)}
                for x in allx:
                    for a in anc(x)[1:]:
                        if pi[id(a)] > pi[id(x)] or qi[id(a)] < qi[id(x)]: note("traversal order", b)
                for x, y in itertools.combinations(allx, 2):
                    ax, ay = anc(x), anc(y)
                    got = trees.lca(x, y)
                    if x in ay or y in ax: exp = None
                    else: exp = next(a for a in ax if a in ay)
                    if got is not exp: note("lca", b)
                lv, rl = trees.levels(nodes[0])
                for x in nodes:
                    if rl.get(x) != height(x): note("levels", b)
                treeoutput.compute_export_numbering(nodes[0])
                nums = sorted(x.data['num'] for x in nodes)
                if nums != [0] + list(range(500, 500 + m - 1)): note("numbering bijection", b)
                for x in nodes:
                    for c in x.children:
                        if c.children and x is not nodes[0] and not c.data['num'] < x.data['num']: note("child above parent", b)
                for x, y in itertools.combinations(nodes[1:], 2):
                    if height(x) == height(y):
                        if (cover(x)[0] < cover(y)[0]) != (x.data['num'] < y.data['num']) and cover(x)[0] != cover(y)[0]: note("level order", b)
                    elif (height(x) < height(y)) != (x.data['num'] < y.data['num']): note("level vs num", b)
            except Exception as e:
                note("EXC " + repr(e)[:60], b)
print(tot, fails)
for k in ex: print(k, ex[k])
