import io, sys, tempfile, os, contextlib
from trees import trees, treeinput, treeoutput, transform, treeanalysis, grammar, transitions, grammaroutput, grammarinput, grammaranalysis
def rd(fmt, text, **p):
    with tempfile.NamedTemporaryFile('w', delete=False, suffix='.txt') as f:
        f.write(text); n=f.name
    p.setdefault('quiet', True)
    try:
        return list(getattr(treeinput, fmt)(n, 'utf8', **p))
    finally:
        os.remove(n)
def br(t):
    if not t.children: return "(%s %s:%s)"%(t.data['label'], t.data['word'], t.data['num'])
    return "(%s %s)"%(t.data['label'], ' '.join(br(c) for c in trees.children(t)))
def attempt(name, f):
    try:
        with contextlib.redirect_stderr(io.StringIO()):
            r = f()
        print(name, "->", r)
    except Exception as e:
        print(name, "ERR", repr(e))
# grammar counts: same rule twice in different vertical contexts
ts = rd('brackets', "(S (X (A a) (B b) (C c)) (Y (X (A a) (B b) (C c))))\n(S (X (A a) (B b) (C c)) (Y (X (A a) (B b) (C c))))\n")
g, lex = {}, {}
for t in ts: grammar.extract(t, g, lex)
for f in g:
    for l in g[f]: print(f, l, g[f][l])
print("LR det:")
b = grammar.binarize(g, reordering=grammar.reordering_none, markov_opts=None)
for f in b:
    for l in b[f]: print(" ", f, l, b[f][l])
print("LR markov v1h2:")
b = grammar.binarize(g, reordering=grammar.reordering_none, markov_opts={'v':1,'h':2})
for f in b:
    for l in b[f]: print(" ", f, l, b[f][l])
print("LR markov v1h1 nofanout:")
b = grammar.binarize(g, reordering=grammar.reordering_none, markov_opts={'v':1,'h':1,'nofanout':True})
for f in b:
    for l in b[f]: print(" ", f, l, b[f][l])
