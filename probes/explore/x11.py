import itertools, collections, io, tempfile, os
from gen import *
from trees import transform, trees
fails = collections.Counter(); ex = {}; tot = 0
def note(k, b): fails[k] += 1; ex.setdefault(k, b)
def toks(root):
    ls = []
    def w(t):
        if not t.children: ls.append(t)
        for c in t.children: w(c)
    w(root)
    return [(l.data['word'], l.data['label']) for l in sorted(ls, key=lambda l: l.data['num'])]
d = tempfile.mkdtemp(); fcnt = [0]
def tf(lines):
    fcnt[0] += 1; fn = os.path.join(d, 't%d' % fcnt[0]); open(fn, 'w').write("".join(lines)); return fn
for (m, n) in [(1,1),(1,2),(2,2),(2,3),(3,3)]:
    for ip, lp in shapes(m, n):
        # delete_terminal
        for i in range(n):
            nodes, leaves = build(m, n, ip, lp); b = br(nodes[0]); tot += 1
            before = toks(nodes[0])
            try:
                if n == 1: continue
                trees.delete_terminal(nodes[0], leaves[i])
                r = wellformed(nodes[0])
                if r: note(("delete_terminal", r), (b, i))
                elif toks(nodes[0]) != before[:i] + before[i+1:]: note(("delete_terminal", "tokens"), (b, i))
            except Exception as e: note(("delete_terminal", repr(e)[:50]), (b, i))
        # punctuation_delete
        for ws in itertools.product(['a', ',', '('], repeat=n):
            nodes, leaves = build(m, n, ip, lp, words=ws); b = br(nodes[0]); before = toks(nodes[0]); tot += 1
            try:
                out = quiet(transform.punctuation_delete, nodes[0])
                exp = [t for t in before if t[0] not in trees.PUNCT] or before
                if out is not nodes[0]: note(("punctuation_delete", "not root"), b)
                elif wellformed(out): note(("punctuation_delete", wellformed(out)), b)
                elif toks(out) != exp: note(("punctuation_delete", "tokens"), b)
            except Exception as e: note(("punctuation_delete", repr(e)[:50]), b)
        # insert / substitute
        for idx in range(0, n + 3):
            for q in (True, False):
                for sid in (1, 2):
                    nodes, leaves = build(m, n, ip, lp); b = br(nodes[0]); before = toks(nodes[0]); tot += 1
                    fn = tf(["%d %d NEW NP\n" % (sid, idx)])
                    p = {'terminalfile': fn}
                    if q: p['quiet'] = True
                    try:
                        out = quiet(transform.insert_terminals, nodes[0], **p)
                        exp = before[:idx-1] + [('NEW', 'NP')] + before[idx-1:] if (sid == 1 and 1 <= idx <= n + 1) else before
                        if out is not nodes[0]: note(("insert", "not root"), (b, idx, q, sid))
                        elif wellformed(out): note(("insert", wellformed(out)), (b, idx, q, sid))
                        elif toks(out) != exp: note(("insert", "tokens"), (b, idx, q, sid))
                    except Exception as e: note(("insert", repr(e)[:50]), (b, idx, q, sid))
                    nodes, leaves = build(m, n, ip, lp)
                    fn = tf(["%d %d NEW NP\n" % (sid, idx)]); p['terminalfile'] = fn
                    try:
                        out = quiet(transform.substitute_terminals, nodes[0], **p)
                        exp = before[:idx-1] + [('NEW', 'NP')] + before[idx:] if (sid == 1 and 1 <= idx <= n) else before
                        if out is not nodes[0]: note(("subst", "not root"), (b, idx, q, sid))
                        elif wellformed(out): note(("subst", wellformed(out)), (b, idx, q, sid))
                        elif toks(out) != exp: note(("subst", "tokens"), (b, idx, q, sid))
                    except Exception as e: note(("subst", repr(e)[:50]), (b, idx, q, sid))
print(tot, fails)
for k in ex: print(k, ex[k])
