import itertools, collections
from gen import *
from trees import transform, trees, treeanalysis, transitions

# replay automata produce model: ('L', num) / ('N', label, headside|None, kids...)
def rp_topdown(trans, n):
    st = []; nxt = n
    for t in trans:
        if t == 'SHIFT':
            if nxt < 1: return "shift on empty"
            st.append(('L', nxt)); nxt -= 1
        elif t.startswith('UNARY-'):
            if not st: return "unary on empty"
            st.append(('N', t[6:], None, (st.pop(),)))
        elif t.startswith('BINARY-'):
            side, lab = t[7:].split('-', 1)
            if len(st) < 2: return "binary underflow"
            a = st.pop(); b = st.pop()   # a is leftmost (pushed last in right-to-left)
            st.append(('N', lab, side, (a, b)))
        else: return "unknown " + t
    if nxt != 0 or len(st) != 1: return "bad end %s %s" % (nxt, len(st))
    return st[0]

def rp_inorder(trans, n):
    st = []; nxt = 1
    for t in trans:
        if t == 'SHIFT':
            if nxt > n: return "shift on empty"
            st.append(('L', nxt)); nxt += 1
        elif t.startswith('PJ-'):
            if not st: return "pj on empty"
            st.append(('PJ', t[3:]))
        elif t == 'REDUCE':
            kids = []
            while st and st[-1][0] != 'PJ':
                kids.append(st.pop())
            if not st: return "reduce without pj"
            lab = st.pop()[1]
            if not st: return "pj without first child"
            first = st.pop()
            st.append(('N', lab, None, tuple([first] + kids[::-1])))
        else: return "unknown " + t
    if nxt != n + 1 or len(st) != 1: return "bad end"
    return st[0]

def mspan2(k):
    if k[0] == 'L': return [k[1]]
    r = []
    for c in k[3]: r.extend(mspan2(c))
    return sorted(r)

def rp_gap(trans, n):
    s = []; d = []; b = list(range(1, n + 1))
    for t in trans:
        if t == 'SHIFT':
            if not b: return "shift on empty"
            while d: s = [d.pop(0)] + s
            d = [('L', b.pop(0))]
        elif t == 'GAP':
            if not s: return "gap on empty"
            d.append(s.pop(0))
        elif t.startswith('R-'):
            side, lab = t[2:].split('-', 1)
            if not s or not d: return "reduce underflow"
            a, c = s[0], d[0]
            s = s[1:]; d = d[1:]
            kids = tuple(sorted([a, c], key=lambda k: mspan2(k)[0]))
            # head side refers to s0 = LEFT
            p = ('N', lab, side, kids, a)
            while d: s = [d.pop(0)] + s
            d = [p]
        elif t.startswith('UNARY-'):
            if not d: return "unary on empty"
            d[0] = ('N', t[6:], None, (d[0],))
        else: return "unknown " + t
    if s or b or len(d) != 1: return "bad end s=%d b=%d d=%d" % (len(s), len(b), len(d))
    return d[0]

def strip(k):
    if k[0] == 'L': return k
    return ('N', k[1], tuple(strip(c) for c in k[3]))
def heads_of(k, out):
    if k[0] == 'L': return
    if k[2] is not None:
        if len(k) == 5:   # gap: side relative to s0
            hk = k[4] if k[2] == 'LEFT' else [c for c in k[3] if c is not k[4]][0]
        else:
            hk = k[3][0] if k[2] == 'LEFT' else k[3][1]
        out.append((k[1], tuple(mspan2(k)), tuple(mspan2(hk))))
    for c in k[3]: heads_of(c, out)

def tmodel(t):
    if not t.children: return ('L', t.data['num'])
    return ('N', t.data['label'], tuple(tmodel(c) for c in sorted(t.children, key=lambda c: cover(c)[0])))
def theads(t, out):
    ks = sorted(t.children, key=lambda c: cover(c)[0])
    if len(ks) == 2:
        h = [c for c in ks if c.data['head']]
        out.append((t.data['label'], tuple(cover(t)), tuple(cover(h[0])) if len(h)==1 else None))
    for c in ks: theads(c, out)

fails = collections.Counter(); ex = {}; tot = collections.Counter()
for (m, n) in [(1,1),(2,1),(3,1),(1,2),(2,2),(3,2),(2,3),(3,3),(4,3),(3,4),(4,4)]:
    for ip, lp in shapes(m, n):
        nodes, leaves = build(m, n, ip, lp)
        arities = [len(nd.children) for nd in nodes]
        for hs in itertools.product(*[range(a) for a in arities]):
            nodes, leaves = build(m, n, ip, lp)
            for nd, h in zip(nodes, hs):
                for i, c in enumerate(sorted(nd.children, key=lambda c: cover(c)[0])):
                    c.data['head'] = (i == h)
            nodes[0].data['head'] = False
            tree = transform.binarize(nodes[0])
            before = br(tree)
            cont = treeanalysis.gap_degree(tree) == 0
            exp = tmodel(tree); eh = []; theads(tree, eh)
            for name, rp in (('gap', rp_gap), ('topdown', rp_topdown), ('inorder', rp_inorder)):
                if name != 'gap' and not cont: continue
                tot[name] += 1
                try:
                    terms, trans = quiet(getattr(transitions, name), tree)
                    got = rp([str(t) for t in trans], n)
                    r = None
                    if isinstance(got, str): r = got
                    elif strip(got) != exp: r = "tree differs"
                    elif name != 'inorder':
                        gh = []; heads_of(got, gh)
                        if sorted(gh) != sorted(eh): r = "heads differ"
                    if r is None and terms != [(l.data['word'], l.data['label']) for l in leaves]: r = "terminals"
                except Exception as e:
                    r = "EXC " + repr(e)[:70]
                if r:
                    fails[(name, r)] += 1; ex.setdefault((name, r), (before, [str(t) for t in trans]))
print(tot)
for k in fails: print(k, fails[k], ex[k])
