import itertools, collections, io, tempfile, os, argparse, contextlib
from trees import transform, trees, treeinput
d = tempfile.mkdtemp()
def corpus(s):
    return "".join("#BOS %d\nw%d\t\t\tP\t--\t\t--\t500\nx\t\t\tQ\t--\t\t--\t0\n#500\t\t\tX\t--\t\t--\t0\n#EOS %d\n" % (i+1, i, i+1) if i % 2 else "#BOS %d\nw%d\t\t\tP\t--\t\t--\t0\n#EOS %d\n" % (i+1, i, i+1) for i in range(s))
def run(src, dest, fmt, split, trans=(), params=()):
    args = argparse.Namespace(src=src, dest=dest, counting=100, trans=list(trans), params=list(params), src_format='export',
        src_enc='utf-8', src_opts=['quiet'], dest_format=fmt, dest_enc='utf-8', dest_opts=[], split=split)
    with contextlib.redirect_stderr(io.StringIO()), contextlib.redirect_stdout(io.StringIO()):
        transform.run(args)
fails = collections.Counter(); ex = {}; tot = 0
SPECS = ["rest", "1#_rest", "rest_2#", "50%_rest", "50%_50%", "1#_1#", "34%_33%_33%", "2#_50%", "0#_rest", "100%", "3#"]
for s in range(0, 6):
    src = os.path.join(d, 'src'); open(src, 'w').write(corpus(s))
    for fmt in ['export', 'brackets', 'discobrackets', 'tigerxml', 'terminals']:
        for trans, params in (((), ()), (('filter_by_length',), ('filteroperator:gt', 'filtervalue:1'))):
            whole = os.path.join(d, 'whole'); run(src, whole, fmt, '', trans, params)
            if fmt == 'terminals': nwhole = len([l for l in open(whole).read().split('\n') if l.strip()])
            else: nwhole = len(list(getattr(treeinput, fmt)(whole, 'utf-8', quiet=True)))
            for spec in SPECS:
                tot += 1
                for f in os.listdir(d):
                    if f.startswith('part'): os.remove(os.path.join(d, f))
                try:
                    run(src, os.path.join(d, 'part'), fmt, spec, trans, params)
                    err = None
                except Exception as e:
                    err = type(e).__name__
                key = None
                if err:
                    key = ("raised " + err)
                    fails[(fmt, spec, key)] += 1; ex.setdefault((fmt, spec, key), (s, nwhole)); continue
                k = len(spec.split('_'))
                cnt = []
                for i in range(k):
                    p = os.path.join(d, 'part.%d' % i)
                    if not os.path.exists(p): key = "missing part"; break
                    try:
                        if fmt == 'terminals': cnt.append(len([l for l in open(p).read().split('\n') if l.strip()]))
                        else: cnt.append(len(list(getattr(treeinput, fmt)(p, 'utf-8', quiet=True))))
                    except Exception as e:
                        key = "part unreadable " + type(e).__name__; break
                if key is None and sum(cnt) != nwhole: key = "sum %s != %d" % (cnt, nwhole)
                if key: fails[(fmt, spec, key)] += 1; ex.setdefault((fmt, spec, key), (s, nwhole))
print(tot, len(fails))
agg = collections.Counter()
for (fmt, spec, key), v in fails.items(): agg[(fmt, key.split(' [')[0])] += v
for k, v in sorted(agg.items()): print(k, v)
print([ (k, ex[k]) for k in list(ex)[:6]])
