import itertools, collections, tempfile, os, copy, io
from gen import *
import contextlib, io as _io
with contextlib.redirect_stdout(_io.StringIO()):
    from x03 import rd, wr, fullmodel, fspan
from trees import trees, treeinput, treeoutput, treeanalysis
def core(t, rep):
    if not t.children:
        wd = t.data['word']
        if rep:
            for a, bb in trees.BRACKETS.items(): wd = wd.replace(a, bb)
        return ('L', t.data['label'], wd, t.data['num'])
    return ('N', t.data['label'], None, tuple(sorted((core(c, rep) for c in t.children), key=lambda k: fspan(k)[0])))
WORDS = ['a', '(', '<&"', 'b)c']
fails = collections.Counter(); ex = {}; tot = 0
FM = ['export', 'brackets', 'discobrackets', 'tigerxml']
for (m, n) in [(1,1),(1,2),(2,2),(2,3),(3,3)]:
    for ip, lp in shapes(m, n):
        for ws in itertools.product(WORDS, repeat=n):
            def mk():
                nodes, leaves = build(m, n, ip, lp, words=ws)
                nodes[0].data['sid'] = 7
                return nodes[0]
            disc = treeanalysis.gap_degree(mk()) > 0
            for a in FM:
                if a == 'brackets' and disc: continue
                try:
                    ta = wr(a, [mk()])
                except Exception as e:
                    fails[(a, 'write', repr(e)[:50])] += 1; continue
                for b in FM + ['terminals']:
                    if b == 'brackets' and disc: continue
                    for opts in ({}, {'export_four': True}, {'gf': True}, {'brackets_emptyroot': True}):
                        if opts and not ((b == 'export' and 'export_four' in opts) or (b in ('brackets','discobrackets') and ('gf' in opts or 'brackets_emptyroot' in opts))): continue
                        tot += 1
                        try:
                            src = rd(a, ta)
                            tb = wr(b, src, **opts)
                            r = None
                            if b != 'terminals' and not opts:
                                back = rd(b, tb)
                                rep = a in ('brackets','discobrackets') or b in ('brackets','discobrackets')
                                if len(back) != 1 or core(back[0], False) != core(mk(), rep): r = "differs"
                        except Exception as e:
                            r = "EXC " + repr(e)[:60]
                        if r: fails[(a, b, tuple(opts), r)] += 1; ex.setdefault((a, b, tuple(opts), r), (br(mk()), ta, tb if 'tb' in dir() else None))
print(tot, len(fails))
for k in fails: print(k, fails[k], ex.get(k, ('',))[0])
