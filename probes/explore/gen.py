"""brute-force exploration helpers (scratch, not the deliverable)"""
import itertools, io, contextlib
from trees import trees

def shapes(m, n):
    for ip in itertools.product(*[range(i) for i in range(1, m)]):
        for lp in itertools.product(range(m), repeat=n):
            ok = True
            for i in range(m):
                if not (any(ip[k-1] == i for k in range(i+1, m)) or any(l == i for l in lp)):
                    ok = False; break
            if ok:
                yield ip, lp

def build(m, n, ip, lp, labels=None, words=None, edges=None, pos=None):
    nodes = []
    for i in range(m):
        t = trees.Tree(trees.make_node_data())
        t.data['label'] = labels[i] if labels else ('VROOT' if i == 0 else 'X%d' % i)
        t.data['edge'] = edges[i] if edges else '--'
        t.data['morph'] = '--'; t.data['lemma'] = '--'
        nodes.append(t)
    nodes[0].data['sid'] = 1
    for i in range(1, m):
        p = nodes[ip[i-1]]
        nodes[i].parent = p; p.children.append(nodes[i])
    leaves = []
    for j in range(n):
        t = trees.Tree(trees.make_node_data())
        t.data['label'] = pos[j] if pos else 'P%d' % j
        t.data['word'] = words[j] if words else 'w%d' % j
        t.data['edge'] = edges[m + j] if edges else '--'
        t.data['morph'] = '--'; t.data['lemma'] = '--'
        t.data['num'] = j + 1
        p = nodes[lp[j]]
        t.parent = p; p.children.append(t)
        leaves.append(t)
    return nodes, leaves

def cover(t):
    if not t.children:
        return [t.data['num']]
    r = []
    for c in t.children:
        r.extend(cover(c))
    return sorted(r)

def model(t):
    """(label, word|None, num|None, kids) with kids sorted by leftmost token"""
    if not t.children:
        return (t.data['label'], t.data['word'], t.data.get('num'), ())
    kids = tuple(sorted((model(c) for c in t.children), key=lambda k: mspan(k)[0]))
    return (t.data['label'], None, None, kids)

def mspan(k):
    if not k[3]:
        return [k[2]]
    r = []
    for c in k[3]:
        r.extend(mspan(c))
    return sorted(r)

def wellformed(root):
    """returns None if ok else reason"""
    if root.parent is not None:
        return "root has parent"
    seen = set()
    stack = [root]
    leaves = []
    while stack:
        t = stack.pop()
        if id(t) in seen:
            return "node reachable twice"
        seen.add(id(t))
        for c in t.children:
            if c.parent is not t:
                return "child.parent mismatch"
            stack.append(c)
        if not t.children:
            if 'num' not in t.data or t.data.get('word') is None:
                return "childless constituent"
            leaves.append(t)
    nums = sorted(l.data['num'] for l in leaves)
    if nums != list(range(1, len(nums) + 1)):
        return "nums %s" % nums
    return None

def quiet(f, *a, **k):
    with contextlib.redirect_stderr(io.StringIO()), contextlib.redirect_stdout(io.StringIO()):
        return f(*a, **k)

def br(t):
    if not t.children: return "(%s %s:%s)"%(t.data['label'], t.data['word'], t.data.get('num'))
    return "(%s %s)"%(t.data['label'], ' '.join(br(c) for c in sorted(t.children, key=lambda c: cover(c)[0])))
