import itertools, collections, tempfile, os, copy
from gen import *
from trees import trees, grammar, grammaranalysis, treeanalysis, grammaroutput, grammarinput
fails = collections.Counter(); ex = {}; tot = 0
d = tempfile.mkdtemp()
def norm(g):
    return {f: {l: sum(g[f][l].values()) for l in g[f]} for f in g}
for (m, n) in [(2,2),(2,3),(3,3),(3,4),(4,4)]:
    for ip, lp in shapes(m, n):
        nodes, leaves = build(m, n, ip, lp, labels=['R','X','X','Y'][:m], pos=['P','P','Q','P','Q'][:n], words=['a','b','a','b','a'][:n])
        g = {}; lex = {}
        grammar.extract(nodes[0], g, lex); grammar.extract(nodes[0], g, lex)
        for mode, gg in (('raw', g), ('lr', grammar.binarize(g, reordering=grammar.reordering_none, markov_opts=None)),
                         ('opt', grammar.binarize(g, reordering=grammar.reordering_optimal, markov_opts=None)),
                         ('mk', grammar.binarize(g, reordering=grammar.reordering_none, markov_opts={'v':1,'h':1}))):
            tot += 1
            dest = os.path.join(d, 'g')
            try:
                quiet(grammaroutput.rcg, copy.deepcopy(gg), lex, dest, 'utf8')
                g2, lex2 = grammarinput.rcg(dest, 'utf8')
                r = None
                if norm(g2) != norm(gg): r = "rcg grammar differs"
                if {w: dict(c) for w, c in lex2.items()} != {w: dict(c) for w, c in lex.items()}: r = "lex differs"
            except Exception as e:
                r = "EXC " + repr(e)[:80]
            if r: fails[(mode, r)] += 1; ex.setdefault((mode, r), (br(nodes[0]), norm(gg), r if 'EXC' in r else norm(g2)))
print(tot, fails)
for k in ex: print(k, ex[k])
