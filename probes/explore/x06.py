import itertools, collections
from gen import *
from trees import trees, grammar, grammaranalysis, treeanalysis

def blocks(nums):
    nums = sorted(nums); bl = [[nums[0]]]
    for x in nums[1:]:
        if x == bl[-1][-1] + 1: bl[-1].append(x)
        else: bl.append([x])
    return bl

def instantiate(lin, child_blocks):
    """lin: tuple of args; arg: tuple of (rhs, argpos). child_blocks[rhs] = list of blocks. returns list of blocks or error str"""
    used = collections.Counter()
    out = []
    for arg in lin:
        cur = []
        for (r, a) in arg:
            if r >= len(child_blocks) or a >= len(child_blocks[r]): return "bad ref"
            if used[r] != a: return "out of order use"
            used[r] += 1
            b = child_blocks[r][a]
            if cur and b[0] != cur[-1] + 1: return "non adjacent concat"
            cur.extend(b)
        out.append(cur)
    for r, bl in enumerate(child_blocks):
        if used[r] != len(bl): return "unused block"
    return out

def check_tree(root, g):
    nodes_by_label = collections.Counter()
    for t in iter_all(root):
        if not t.children: continue
        nodes_by_label[t.data['label']] += 1
        ks = sorted(t.children, key=lambda c: cover(c)[0])
        func = tuple([t.data['label']] + [c.data['label'] for c in ks])
        if func not in g: return "missing func %s" % (func,)
        ok = False
        for lin in g[func]:
            r = instantiate(lin, [blocks(cover(c)) for c in ks])
            if r == blocks(cover(t)):
                # vertical context
                vert = []
                x = t
                while x is not None:
                    vert.append("%s%d" % (x.data['label'], len(blocks(cover(x))))); x = x.parent
                if tuple(vert) in g[func][lin]: ok = True
        if not ok: return "no matching lin for %s" % (func,)
    return None

def iter_all(t):
    yield t
    for c in t.children: yield from iter_all(c)

fails = collections.Counter(); ex = {}; tot = 0
for (m, n) in [(1,1),(2,2),(2,3),(3,3),(3,4),(4,4),(3,5)]:
    for ip, lp in shapes(m, n):
        nodes, leaves = build(m, n, ip, lp, labels=['R','X','X','Y'][:m], pos=['P','P','Q','P','Q'][:n], words=['a','b','a','b','a'][:n])
        g = {}; lex = {}
        grammar.extract(nodes[0], g, lex)
        grammar.extract(nodes[0], g, lex)
        tot += 1
        r = check_tree(nodes[0], g)
        if r is None:
            # counts
            per = collections.Counter()
            for f in g:
                for l in g[f]:
                    per[f[0]] += sum(g[f][l].values())
            exp = collections.Counter(t.data['label'] for t in iter_all(nodes[0]) if t.children)
            if per != {k: 2*v for k, v in exp.items()}: r = "counts"
            lx = collections.Counter((l.data['word'], l.data['label']) for l in leaves)
            got = collections.Counter({(w, t): c for w in lex for t, c in lex[w].items()})
            if got != {k: 2*v for k, v in lx.items()}: r = "lexcounts"
            cf = grammaranalysis.is_contextfree(g)
            if cf != (treeanalysis.gap_degree(nodes[0]) == 0): r = "cf mismatch"
        if r: fails[r] += 1; ex.setdefault(r, br(nodes[0]))
print(tot, fails, ex)
