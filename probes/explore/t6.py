import io, contextlib, tempfile
from trees import trees, transform, treeinput
def rd(text):
    f = tempfile.mktemp(); open(f,'w').write(text)
    return list(treeinput.brackets(f, 'utf8', quiet=True))
def br(t):
    if not t.children: return "(%s %s:%s)"%(t.data['label'], t.data['word'], t.data.get('num'))
    return "(%s %s)"%(t.data['label'], ' '.join(br(c) for c in trees.children(t)))
S = "(S (NP-SBJ-1 (NNP John)) (VP (VBD was) (VP=2 (VBN seen) (NP (-NONE- *-1)))) (. .))\n"
for p in ({}, {'keepall': True}, {'keepall': True, 'keepcoindex': True}, {'keep': '*'}, {'slash': True, 'keepall': True}, {'slash': 'NP', 'keepall': True}):
    t = rd(S)[0]
    with contextlib.redirect_stderr(io.StringIO()):
        try: print(p, br(transform.ptb_delete_traces(t, **p)))
        except Exception as e: print(p, "ERR", repr(e))
# all-trace sentence; trace as first token; nested
for s in ["(S (NP (-NONE- *)))\n", "(S (NP (-NONE- *T*-1)) (VP (VB go)))\n", "(S (X (Y (-NONE- *))) (VP (VB go)))\n"]:
    t = rd(s)[0]
    try:
        o = transform.ptb_delete_traces(t); print(s.strip(), "->", br(o), o.parent)
    except Exception as e: print(s.strip(), "ERR", repr(e))
