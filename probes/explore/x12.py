import itertools, collections
from gen import *
from trees import transform, trees

def ref_root_attach(nodes, leaves):
    """set-based model: par: id->id ; returns expected parent map"""
    allnodes = nodes + leaves
    par = {id(x): (id(x.parent) if x.parent is not None else None) for x in allnodes}
    root = id(nodes[0])
    n = len(leaves)
    leaf_by_num = {l.data['num']: id(l) for l in leaves}
    def toks(x):
        # tokens dominated by x under current par
        res = []
        for l in leaves:
            y = id(l)
            while y is not None:
                if y == x:
                    res.append(l.data['num']); break
                y = par[y]
        return sorted(res)
    def ancestors(x):
        r = []
        while x is not None:
            r.append(x); x = par[x]
        return r
    def rootkids():
        ks = [id(x) for x in allnodes if par[id(x)] == root]
        return sorted(ks, key=lambda k: toks(k)[0])
    for c in rootkids():  # snapshot, left to right
        tl = toks(c)[0] - 1
        tr = toks(c)[-1] + 1
        ks = rootkids()
        right = ks[ks.index(c) + 1:] if c in ks else []
        focus_max = toks(c)[-1]
        for s in right:
            st = toks(s)
            if st[0] < focus_max:
                continue
            if st[0] > focus_max + 1:
                break
            tr = st[-1] + 1
            focus_max = st[-1]
        if tl < 1 or tr > n:
            continue
        a = ancestors(leaf_by_num[tl]); b = set(ancestors(leaf_by_num[tr]))
        target = next(x for x in a if x in b)
        par[c] = target
    return par

fails = collections.Counter(); ex = {}; tot = 0; moved = 0
for (m, n) in [(1,2),(2,2),(2,3),(3,3),(2,4),(3,4),(4,4),(3,5),(4,5)]:
    for ip, lp in shapes(m, n):
        nodes, leaves = build(m, n, ip, lp)
        before = br(nodes[0])
        exp = ref_root_attach(nodes, leaves)
        orig = {id(x): (id(x.parent) if x.parent is not None else None) for x in nodes + leaves}
        tot += 1
        try:
            out = transform.root_attach(nodes[0])
            r = wellformed(out)
            got = {id(x): (id(x.parent) if x.parent is not None else None) for x in nodes + leaves}
            if r is None and out is not nodes[0]: r = "returned other node"
            if r is None and got != exp: r = "differs"
            if got != orig: moved += 1
        except Exception as e:
            r = "EXC " + repr(e)[:70]
        if r:
            fails[r] += 1; ex.setdefault(r, before)
print(tot, moved, fails, ex)
