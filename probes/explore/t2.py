import io, sys, tempfile, os, contextlib
from trees import trees, treeinput, treeoutput, transform, treeanalysis, grammar, transitions
def rd(fmt, text, **p):
    with tempfile.NamedTemporaryFile('w', delete=False, suffix='.txt') as f:
        f.write(text); n=f.name
    p.setdefault('quiet', True)
    try:
        return list(getattr(treeinput, fmt)(n, 'utf8', **p))
    finally:
        os.remove(n)
def br(t):
    if not t.children: return "(%s %s:%s)"%(t.data['label'], t.data['word'], t.data['num'])
    return "(%s %s)"%(t.data['label'], ' '.join(br(c) for c in trees.children(t)))
def wr(fmt, t, **p):
    s = io.StringIO()
    getattr(treeoutput, fmt)(t, s, **p)
    return s.getvalue()
def attempt(name, f):
    try:
        with contextlib.redirect_stderr(io.StringIO()):
            r = f()
        print(name, "->", r)
    except Exception as e:
        print(name, "ERR", repr(e))

# discobrackets roundtrip
t = rd('export', open('/repo/tests/discontinuous.export').read())[0]
s = wr('discobrackets', t)
print(s)
attempt("disco reread", lambda: [br(x) for x in rd('discobrackets', s)])
# tigerxml gf_split
xml = wr('tigerxml', rd('brackets', "(VROOT (NP-SBJ (A a) (B b)))\n")[0].__class__ and rd('export', open('/repo/tests/discontinuous.export').read())[0])
xml = "<?xml version='1.0'?>\n<corpus>\n<body>\n" + xml + "</body>\n</corpus>"
attempt("tiger gf_split", lambda: [br(x) for x in rd('tigerxml', xml, gf_split=True)])
attempt("export gf_split", lambda: [br(x) for x in rd('export', open('/repo/tests/discontinuous.export').read(), gf_split=True)])
# uncollapse
t = rd('brackets', "(A (B (C (D d) (E e))))\n")[0]
t = transform.collapse_unary_chains(t); print(br(t))
u = transform.uncollapse_unary_chains(t); print("uncollapse returns", br(u), "parent", u.parent and u.parent.data['label'])
# collapse ending in token
t = rd('brackets', "(A (B (C c)) (D d))\n")[0]
t = transform.collapse_unary_chains(t); print(br(t))
attempt("uncollapse token", lambda: br(transform.uncollapse_unary_chains(t)))
# punctuation_root emptying
t = rd('brackets', "(S (X (P ,) (Q .)) (B b))\n")[0]
attempt("punct_root", lambda: br(transform.punctuation_root(t)))
t = rd('brackets', "(S (X (P ,) (Q .)) (B b))\n")[0]
attempt("punct_root then terminals", lambda: [x.data['word'] for x in trees.terminals(transform.punctuation_root(t))])
# symetrify
t = rd('brackets', "(S (X (P ``)) (Y (B b) (Q '')) )\n")[0]
attempt("symetrify", lambda: br(transform.punctuation_symetrify(t)))
# gap transitions: unary root
t = rd('brackets', "(R (S (A a) (B b)))\n")[0]
t = transform.negra_mark_heads(t)
attempt("gap unary root", lambda: [str(x) for x in transitions.gap(t)[1]])
attempt("topdown unary root", lambda: [str(x) for x in transitions.topdown(t)[1]])
t = rd('brackets', "(R (A a))\n")[0]; t = transform.negra_mark_heads(t)
attempt("gap one token", lambda: [str(x) for x in transitions.gap(t)[1]])
attempt("inorder", lambda: [str(x) for x in transitions.inorder(t)[1]])
# head rules
t = rd('brackets', "(VP (NN a) (VB b) (TO c))\n")[0]
t = transform.mark_heads_by_rules(t, mark_heads_preset='ptb')
print("ptb heads", [(c.data['label'], c.data['head']) for c in trees.children(t)])
t = rd('brackets', "(NP (ADJA a) (NN b) (PP c))\n")[0]
t = transform.mark_heads_by_rules(t, mark_heads_preset='negra')
print("negra heads", [(c.data['label'], c.data['head']) for c in trees.children(t)])
