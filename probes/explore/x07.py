import itertools, collections
from trees import grammar, grammaranalysis

def rules(R, V):
    """all canonical lins: sequence of V variable occurrences, each an rhs index; arguments split; 
    canonical: first occurrences of rhs in order 0,1,2..; no two adjacent vars of same rhs inside an argument; every rhs used"""
    for v in range(1, V + 1):
        for seq in itertools.product(range(R), repeat=v):
            used = []
            for x in seq:
                if x not in used: used.append(x)
            if used != list(range(len(used))): continue
            for cuts in itertools.product([0, 1], repeat=v - 1):
                args = [[seq[0]]]
                ok = True
                for x, c in zip(seq[1:], cuts):
                    if c: args.append([x])
                    else:
                        if args[-1][-1] == x: ok = False; break
                        args[-1].append(x)
                if not ok: continue
                cnt = collections.Counter()
                lin = []
                for a in args:
                    la = []
                    for x in a:
                        la.append((x, cnt[x])); cnt[x] += 1
                    lin.append(tuple(la))
                yield len(used), tuple(lin)

def ev(lin, ys):
    """ys[i] = list of token tuples (blocks) for rhs i; returns list of token tuples"""
    out = []
    used = collections.Counter()
    for arg in lin:
        cur = ()
        for (r, a) in arg:
            if used[r] != a: raise ValueError("order")
            used[r] += 1
            cur += ys[r][a]
        out.append(cur)
    for r in range(len(ys)):
        if used[r] != len(ys[r]): raise ValueError("unused %s %s" % (used, [len(y) for y in ys]))
    return out

def compose(bing, sym, leafy):
    """yield of nonterminal sym in binarized grammar where leaf symbols have given yields; deterministic grammars only"""
    if sym in leafy: return leafy[sym]
    cands = [(f, l) for f in bing if f[0] == sym for l in bing[f]]
    if len(cands) != 1: raise ValueError("ambiguous %s %d" % (sym, len(cands)))
    f, l = cands[0]
    return ev(l, [compose(bing, s, leafy) for s in f[1:]])

fails = collections.Counter(); ex = {}; tot = 0
for reord in (grammar.reordering_none, grammar.reordering_optimal):
    for rank, lin in rules(4, 6):
        func = tuple(['A'] + ['B%d' % i for i in range(rank)])
        fo = grammaranalysis.fan_out(lin)
        g = {func: {lin: {('A1',): 3}}}
        tot += 1
        try:
            b = grammar.binarize(g, reordering=reord, markov_opts=None)
            r = None
            if any(len(f) > 3 for f in b): r = "rank>2"
            leafy = {'B%d' % i: [("B%d.%d" % (i, j),) for j in range(fo[i + 1])] for i in range(rank)}
            want = ev(lin, [leafy['B%d' % i] for i in range(rank)])
            got = compose(b, 'A', leafy)
            if got != want: r = r or "yield differs"
            if rank <= 2 and b != {func: {lin: {'VERT': 3}}}: r = r or "small rule changed"
            for f in b:
                for l in b[f]:
                    if b[f][l] != {'VERT': 3}: r = r or "count"
        except Exception as e:
            r = "EXC " + repr(e)[:80]
        if r: fails[(reord.__name__, r)] += 1; ex.setdefault((reord.__name__, r), (func, lin))
print(tot, fails); 
for k in ex: print(k, ex[k])
