import itertools, collections
from gen import *
from trees import transform, trees, treeanalysis
def mod(t):
    if not t.children: return ('L', t.data['label'], t.data['word'], t.data['num'])
    return ('N', t.data['label'], tuple(sorted((mod(c) for c in t.children), key=lambda k: sp(k)[0])))
def sp(k):
    if k[0] == 'L': return [k[3]]
    r = []
    for c in k[2]: r.extend(sp(c))
    return sorted(r)
def unbin(k):
    if k[0] == 'L': return [k]
    kids = []
    for c in k[2]:
        kids.extend(unbin(c))
    if k[1].startswith('@'): return kids
    return [('N', k[1], tuple(sorted(kids, key=lambda x: sp(x)[0])))]
def maxar(k):
    if k[0] == 'L': return 0
    return max([len(k[2])] + [maxar(c) for c in k[2]])
fails = collections.Counter(); ex = {}; tot = 0
for (m, n) in [(1,1),(2,1),(3,1),(1,3),(2,3),(1,4),(2,4),(3,4),(1,5),(2,5),(4,2),(3,3)]:
    for ip, lp in shapes(m, n):
        nodes, leaves = build(m, n, ip, lp)
        arities = [len(nd.children) for nd in nodes]
        for hs in itertools.product(*[range(a) for a in arities]):
            nodes, leaves = build(m, n, ip, lp, labels=['VROOT', 'NP-1', 'X', 'Y'][:m])
            for nd, h in zip(nodes, hs):
                for i, c in enumerate(sorted(nd.children, key=lambda c: cover(c)[0])):
                    c.data['head'] = (i == h)
            nodes[0].data['head'] = False
            orig = mod(nodes[0]); before = br(nodes[0])
            tot += 1
            try:
                out = transform.binarize(nodes[0])
                r = wellformed(out)
                got = mod(out)
                if r is None and maxar(got) > 2: r = "arity>2"
                if r is None and unbin(got) != [orig]: r = "unbinarize differs"
            except Exception as e:
                r = "EXC " + repr(e)[:70]
            if r: fails[('bin', r)] += 1; ex.setdefault(('bin', r), (before, hs))
        # collapse / uncollapse
        nodes, leaves = build(m, n, ip, lp)
        orig = mod(nodes[0]); before = br(nodes[0])
        try:
            c = transform.collapse_unary_chains(nodes[0])
            r = None
            def unary(t): return (len(t.children) == 1) or any(unary(x) for x in t.children)
            if unary(c): r = "unary left"
            u = transform.uncollapse_unary_chains(c)
            r = r or wellformed(u)
            if r is None and mod(u) != orig: r = "uncollapse differs"
        except Exception as e:
            r = "EXC " + repr(e)[:70]
        if r: fails[('collapse', r)] += 1; ex.setdefault(('collapse', r), before)
print(tot, fails)
for k in ex: print(k, ex[k])
