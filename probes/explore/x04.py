import itertools, collections
from gen import *
from trees import transform, trees
WORDS = [',', 'a', '``']
fails = collections.defaultdict(list)
def run(name, f, m, n, **params):
    for ip, lp in shapes(m, n):
        for ws in itertools.product(WORDS, repeat=n):
            nodes, leaves = build(m, n, ip, lp, words=ws)
            before = br(nodes[0])
            toks = [(l.data['word'], l.data['label']) for l in leaves]
            try:
                out = quiet(f, nodes[0], **params)
                r = wellformed(out) if out is not None else "None"
                if r is None:
                    lv = sorted((x for x in [out] + list(iter_nodes(out)) if not x.children), key=lambda x: x.data['num'])
                    if [(l.data['word'], l.data['label']) for l in lv] != toks:
                        r = "tokens changed"
            except Exception as e:
                r = "EXC " + repr(e)[:60]
            if r:
                fails[(name, r)].append(before)
def iter_nodes(t):
    for c in t.children:
        yield c
        yield from iter_nodes(c)
for (m, n) in [(1,1),(1,2),(2,2),(2,3),(3,3),(3,4)]:
    for name in ['root_attach', 'punctuation_verylow', 'punctuation_symetrify', 'punctuation_root', 'add_topnode', 'collapse_unary_chains', 'punctuation_delete']:
        run(name, getattr(transform, name), m, n)
for k, v in sorted(fails.items()):
    print(k, len(v), v[:2])
