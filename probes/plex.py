from trees import trees, treeinput

class _Stream:
    def __init__(self, text):
        self.text = text
        self.pos = 0
    def read(self, n=1):
        c = self.text[self.pos:self.pos + n]
        self.pos += n
        return c
    def __enter__(self):
        return self
    def __exit__(self, *a):
        return False

class _IO:
    files = {}
    @staticmethod
    def open(name, *a, **k):
        return _Stream(_IO.files[name])

treeinput.io = _IO

def ref_balanced(text):
    # independent: count groups
    depth = 0
    groups = 0
    for c in text:
        if c == '(':
            depth += 1
        elif c == ')':
            if depth > 0:
                depth -= 1
                if depth == 0:
                    groups += 1
    return groups

def lex_total(text: str) -> int:
    """
    pre: len(text) <= 6
    pre: all(c in "() ab" for c in text)
    post: True
    """
    _IO.files['f'] = text
    n = 0
    try:
        for t in treeinput.brackets('f', 'utf8', quiet=True):
            n += 1
    except ValueError:
        return -1
    return n
