import collections
from trees import grammar, grammaranalysis

def mk_lin(seq, cuts):
    args = [[seq[0]]]
    for x, c in zip(seq[1:], cuts):
        if c:
            args.append([x])
        else:
            args[-1].append(x)
    cnt = {}
    lin = []
    for a in args:
        la = []
        for x in a:
            k = cnt.get(x, 0)
            la.append((x, k)); cnt[x] = k + 1
        lin.append(tuple(la))
    return tuple(lin)

def canonical(seq, cuts, R):
    used = []
    for x in seq:
        if not (0 <= x < R):
            return False
        if x not in used:
            used.append(x)
    if used != list(range(len(used))):
        return False
    for i in range(len(cuts)):
        if not cuts[i] and seq[i] == seq[i + 1]:
            return False
    return True

def ev(lin, ys):
    out = []
    used = {}
    for arg in lin:
        cur = ()
        for (r, a) in arg:
            if used.get(r, 0) != a:
                return None
            used[r] = a + 1
            cur += ys[r][a]
        out.append(cur)
    for r in range(len(ys)):
        if used.get(r, 0) != len(ys[r]):
            return None
    return out

def compose(bing, sym, leafy):
    if sym in leafy:
        return leafy[sym]
    cands = [(f, l) for f in bing if f[0] == sym for l in bing[f]]
    if len(cands) != 1:
        return None
    f, l = cands[0]
    ys = [compose(bing, s, leafy) for s in f[1:]]
    if any(y is None for y in ys):
        return None
    return ev(l, ys)

def bin_ok(r1: int, r2: int, r3: int, r4: int, r5: int, c1: bool, c2: bool, c3: bool, c4: bool, opt: bool) -> bool:
    """
    pre: canonical([r1, r2, r3, r4, r5], [c1, c2, c3, c4], 4)
    post: _
    """
    seq = [int(r1), int(r2), int(r3), int(r4), int(r5)]
    lin = mk_lin(seq, [c1, c2, c3, c4])
    rank = max(seq) + 1
    func = tuple(['A'] + ['B%d' % i for i in range(rank)])
    fo = grammaranalysis.fan_out(lin)
    g = {func: {lin: {('A1',): 3}}}
    b = grammar.binarize(g, reordering=grammar.reordering_optimal if opt else grammar.reordering_none, markov_opts=None)
    if any(len(f) > 3 for f in b):
        return False
    leafy = {'B%d' % i: [("B%d.%d" % (i, j),) for j in range(fo[i + 1])] for i in range(rank)}
    want = ev(lin, [leafy['B%d' % i] for i in range(rank)])
    got = compose(b, 'A', leafy)
    return got is not None and got == want
