from trees import trees, treeanalysis, transform
EDGES = ['HD', 'NK', '--']

def build(m, n, ip, lp, ed):
    nodes = []
    for i in range(m):
        t = trees.Tree(trees.make_node_data())
        t.data['label'] = 'X%d' % i
        t.data['edge'] = EDGES[ed[i]] if i > 0 else '--'
        nodes.append(t)
    for i in range(1, m):
        p = nodes[ip[i-1]]
        nodes[i].parent = p
        p.children.append(nodes[i])
    leaves = []
    for j in range(n):
        t = trees.Tree(trees.make_node_data())
        t.data['label'] = 'P%d' % j
        t.data['word'] = 'w%d' % j
        t.data['edge'] = EDGES[ed[m + j]]
        t.data['num'] = j + 1
        p = nodes[lp[j]]
        t.parent = p
        p.children.append(t)
        leaves.append(t)
    return nodes, leaves

def wf(m, n, ip, lp):
    for i in range(1, m):
        if not (0 <= ip[i-1] < i):
            return False
    for j in range(n):
        if not (0 <= lp[j] < m):
            return False
    for i in range(m):
        if not (any(ip[k-1] == i for k in range(i+1, m)) or any(lp[j] == i for j in range(n))):
            return False
    return True

# model: node = (label, num or None, head, [children]) built by own walker
def model(t):
    if not t.children:
        return (t.data['label'], t.data['num'], ())
    kids = tuple(sorted((model(c) for c in t.children), key=lambda k: span(k)[0]))
    return (t.data['label'], None, kids)

def span(k):
    if k[1] is not None:
        return [k[1]]
    r = []
    for c in k[2]:
        r.extend(span(c))
    return sorted(r)

def contiguous(nums):
    return all(b == a + 1 for a, b in zip(nums, nums[1:]))

def ref_head(t):
    """index (in leftmost-token order) of head child by the documented NeGra rule"""
    kids = sorted(t.children, key=lambda c: min(cover(c)))
    e = [c.data['edge'] for c in kids]
    if 'HD' in e:
        return kids[e.index('HD')]
    if 'NK' in e:
        return kids[len(e) - 1 - e[::-1].index('NK')]
    return kids[0]

def cover(t):
    if not t.children:
        return [t.data['num']]
    r = []
    for c in t.children:
        r.extend(cover(c))
    return r

def ref_cont(t):
    """returns (kept model, [raised models])"""
    if not t.children:
        return (t.data['label'], t.data['num'], ()), []
    h = ref_head(t)
    items = []
    for c in t.children:
        k, r = ref_cont(c)
        items.append((k, c is h))
        items.extend((x, False) for x in r)
    items.sort(key=lambda it: span(it[0])[0])
    runs = [[items[0]]]
    for it in items[1:]:
        if span(it[0])[0] == span(runs[-1][-1][0])[-1] + 1:
            runs[-1].append(it)
        else:
            runs.append([it])
    keep = [r for r in runs if any(f for _, f in r)][0]
    raised = [k for r in runs if r is not keep for k, _ in r]
    return (t.data['label'], None, tuple(k for k, _ in keep)), raised

def all_nodes(k):
    yield k
    for c in k[2]:
        yield from all_nodes(c)

def pipeline_ok(p1: int, p2: int, l1: int, l2: int, l3: int, l4: int,
                e1: int, e2: int, e3: int, e4: int, e5: int, e6: int) -> bool:
    """
    pre: wf(3, 4, [p1, p2], [l1, l2, l3, l4])
    pre: all(0 <= e < 3 for e in (e1, e2, e3, e4, e5, e6))
    post: _
    """
    nodes, leaves = build(3, 4, [p1, p2], [l1, l2, l3, l4], [0, e1, e2, e3, e4, e5, e6])
    expect, raised = ref_cont(nodes[0])
    if raised:
        return False
    out = transform.negra_mark_heads(nodes[0])
    out = transform.boyd_split(out)
    out = transform.raising(out)
    got = model(out)
    if out.parent is not None:
        return False
    for k in all_nodes(got):
        if not contiguous(span(k)):
            return False
    return got == expect
