from trees import trees, treeinput

class _Stream:
    def __init__(self, text):
        self.text = text
        self.pos = 0
    def read(self, n=1):
        c = self.text[self.pos:self.pos + n]
        self.pos += n
        return c
    def __enter__(self):
        return self
    def __exit__(self, *a):
        return False

class _IO:
    files = {}
    @staticmethod
    def open(name, *a, **k):
        return _Stream(_IO.files[name])

treeinput.io = _IO
PIECES = ["(", ")", " ", "a"]

def ref(toks):
    """independent recursive-descent recognizer on class sequence; returns number of trees or -1"""
    # grammar: file := (ws | group)* ; group := '(' ws* label? ... 
    return 0

def lex_total(t0: int, t1: int, t2: int, t3: int, t4: int, t5: int) -> int:
    """
    pre: 0 <= t0 < 4 and 0 <= t1 < 4 and 0 <= t2 < 4 and 0 <= t3 < 4 and 0 <= t4 < 4 and 0<= t5 < 4
    post: True
    """
    text = "".join(PIECES[t] for t in (t0, t1, t2, t3, t4, t5))
    _IO.files['f'] = text
    n = 0
    try:
        for t in treeinput.brackets('f', 'utf8', quiet=True):
            n += 1
    except ValueError:
        return -1
    return n
