from trees import trees, treeanalysis

def mk(nums):
    root = trees.Tree(trees.make_node_data()); root.data['label'] = 'R'
    x = trees.Tree(trees.make_node_data()); x.data['label'] = 'X'
    x.parent = root; root.children.append(x)
    for i, k in enumerate(nums):
        t = trees.Tree(trees.make_node_data()); t.data['label'] = 'P'; t.data['word'] = 'w'; t.data['num'] = k
        p = x if i % 2 == 0 else root
        t.parent = p; p.children.append(t)
    return root, x

def gaps_sym(a: int, b: int, c: int, d: int) -> bool:
    """
    pre: a != b and a != c and a != d and b != c and b != d and c != d
    post: _
    """
    root, x = mk([a, b, c, d])
    s = sorted([a, c])
    want = 1 if s[1] != s[0] + 1 else 0
    if treeanalysis.gap_degree_node(x) != want:
        return False
    bl = trees.terminal_blocks(x)
    return len(bl) == want + 1 and [t.data['num'] for b_ in bl for t in b_] == s
