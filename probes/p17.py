from trees.treeoutput import parse_split_specification as pss

def abs_rest(a: int, size: int) -> bool:
    """
    pre: 0 <= a <= 1000000 and 0 <= size <= 1000000
    post: _
    """
    spec = "%d#_rest" % a
    try:
        parts = pss(spec, size)
    except ValueError:
        return a > size
    return a <= size and parts == [a, size - a]

def two_abs(a: int, b: int, size: int) -> bool:
    """
    pre: 0 <= a <= 1000000 and 0 <= b <= 1000000 and 0 <= size <= 1000000
    post: _
    """
    spec = "%d#_%d#" % (a, b)
    try:
        parts = pss(spec, size)
    except ValueError:
        return a + b > size
    if a + b > size:
        return False
    d = size - a - b
    exp = [a + d, b] if a >= b else [a, b + d]
    return parts == exp

def pct(p: int, size: int) -> bool:
    """
    pre: 0 <= p <= 100 and 0 <= size <= 1000
    post: _
    """
    spec = "%d%%_rest" % p
    parts = pss(spec, size)
    return parts[0] == (p * size) // 100
