from p05 import *
from crosshair import realize
CNT = [0]
def pipeline_ok3(p1: int, p2: int, l1: int, l2: int, l3: int,
                e1: int, e2: int, e3: int, e4: int, e5: int) -> bool:
    """
    pre: wf(3, 3, [p1, p2], [l1, l2, l3])
    pre: all(0 <= e < 3 for e in (e1, e2, e3, e4, e5))
    post: _
    """
    p1, p2, l1, l2, l3, e1, e2, e3, e4, e5 = [realize(x) for x in (p1, p2, l1, l2, l3, e1, e2, e3, e4, e5)]
    nodes, leaves = build(3, 3, [p1, p2], [l1, l2, l3], [0, e1, e2, e3, e4, e5])
    expect, raised = ref_cont(nodes[0])
    if raised:
        return False
    out = transform.negra_mark_heads(nodes[0])
    out = transform.boyd_split(out)
    out = transform.raising(out)
    got = model(out)
    if out.parent is not None:
        return False
    for k in all_nodes(got):
        if not contiguous(span(k)):
            return False
    return got == expect
