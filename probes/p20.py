from trees import trees

def roundtrip(label: str) -> bool:
    """
    pre: len(label) <= 4
    pre: all(c in "A1-=#'*" for c in label)
    post: _
    """
    lab = trees.parse_label(label)
    out = trees.format_label(lab)
    if lab.label == trees.DEFAULT_LABEL or lab.gf == trees.DEFAULT_EDGE:
        return True
    return out == label
