import z3, time, sys
F = z3.Float64()
RNE = z3.RNE()
def query(pval=None, smax=1<<20, timeout=60000):
    s = z3.BitVec('s', 64)
    p = z3.BitVec('p', 64) if pval is None else z3.BitVecVal(pval, 64)
    sol = z3.Solver(); sol.set('timeout', timeout)
    sol.add(z3.ULE(s, smax))
    if pval is None: sol.add(z3.ULE(p, 100))
    fp_p = z3.fpSignedToFP(RNE, p, F); fp_s = z3.fpSignedToFP(RNE, s, F)
    q = z3.fpMul(RNE, z3.fpDiv(RNE, fp_p, z3.FPVal(100.0, F)), fp_s)
    fl = z3.fpToSBV(z3.RTN(), z3.fpRoundToIntegral(z3.RTN(), q), z3.BitVecSort(64))
    exact = z3.UDiv(p * s, z3.BitVecVal(100, 64))
    sol.add(fl != exact)
    t = time.time(); r = sol.check(); dt = time.time() - t
    m = sol.model() if str(r) == 'sat' else None
    return str(r), dt, (m.eval(p, True) if m and pval is None else pval, m[s] if m else None)
print("full symbolic:", query(None))
t=time.time()
for pv in (29, 50, 58, 33, 7):
    print(pv, query(pv))
