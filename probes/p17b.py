import builtins
from trees import treeoutput
from trees.treeoutput import parse_split_specification as pss

_NUM = {}
def _int(x, *a):
    if isinstance(x, str) and x in _NUM:
        return _NUM[x]
    return builtins.int(x, *a)
treeoutput.int = _int

def two_abs(a: int, b: int, size: int) -> bool:
    """
    pre: 0 <= a and 0 <= b and 0 <= size
    post: _
    """
    _NUM['A'] = a; _NUM['B'] = b
    try:
        parts = pss("A#_B#", size)
    except ValueError:
        return a + b > size
    if a + b > size:
        return False
    d = size - a - b
    exp = [a + d, b] if a >= b else [a, b + d]
    return parts == exp

def abs_rest_abs(a: int, b: int, size: int) -> bool:
    """
    pre: 0 <= a and 0 <= b and 0 <= size
    post: _
    """
    _NUM['A'] = a; _NUM['B'] = b
    try:
        parts = pss("A#_rest_B#", size)
    except ValueError:
        return a + b > size
    return a + b <= size and parts == [a, size - a - b, b]

def pct(p: int, size: int) -> bool:
    """
    pre: 0 <= p <= 100 and 0 <= size <= 1000
    post: _
    """
    _NUM['P'] = p
    parts = pss("P%_rest", size)
    return parts[0] == (p * size) // 100
