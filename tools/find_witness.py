#!/usr/bin/env python3
"""Development aid (not a check): enumerate the bounded parameters of a property's conditions concretely, call the
harness function in plain Python and print the first failing input as a witness record.
usage: VERIF_REPO=<checkout> tools/find_witness.py C11 [cond-substring] [max]"""
import importlib, itertools, json, os, sys
ROOT = os.path.dirname(os.path.dirname(os.path.abspath(__file__)))
sys.path[:0] = [ROOT, os.environ.get("VERIF_REPO", "/repo")]
import warnings; warnings.simplefilter("ignore")
pid = sys.argv[1]; sub = sys.argv[2] if len(sys.argv) > 2 else ""; mx = int(sys.argv[3]) if len(sys.argv) > 3 else 200000
tier = os.environ.get("VERIF_TIER", "quick")
h = importlib.import_module("harness." + pid.lower())
n = 0
for c in h.conds(tier):
    if sub not in c.name: continue
    mod, func = c.fn.split(":"); fn = getattr(importlib.import_module(mod), func)
    doms = []
    primes = iter([2, 3, 5, 7, 11, 13, 17, 19, 23, 29, 31, 37])
    for p in c.params:
        if p.kind == "bool": doms.append([False, True])
        elif p.kind == "str": doms.append(["", "A", "A-1", "*A*"])
        elif p.lo is not None and p.hi is not None: doms.append(list(range(p.lo, p.hi)))
        else: doms.append([next(primes)])     # unbounded parameter: one distinctive value
    names = [p.name for p in c.params]
    for combo in itertools.product(*doms):
        kw = dict(zip(names, combo))
        ns = dict(kw); ns["_h"] = h
        try:
            if not all(eval(e, ns) for e in c.pre + [p.pre() for p in c.params if p.pre()]): continue
        except Exception: continue
        n += 1
        if n > mx: break
        kw.update(c.fixed)
        try: r = fn(**kw)
        except Exception as e: r = "exception %s: %s" % (type(e).__name__, e)
        if r and r != "~":
            print(json.dumps({"cond": c.name, "fn": c.fn, "kwargs": kw, "reason": str(r)[:300]}))
            sys.exit(0)
print(json.dumps({"none": n}))
