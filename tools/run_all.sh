#!/bin/sh
# tools/run_all.sh quick|thorough [IDs...]  -- run the registered checks one after the other, print the summary lines
tier=$1; shift
ids="$@"; [ -z "$ids" ] && ids="C01 C02 C03 C04 C05 C06 C07 C08 C09 C10 C11 C12 C13 C14 C15 C16 C17 C18 C19 C20"
cd "$(dirname "$0")/.."
for p in $ids; do
  ./vcheck $p --tier $tier > /tmp/run_$p.$tier.log 2>&1; rc=$?
  grep -E "^(VIOLATION|HARNESS-ERROR|INCONCLUSIVE|KNOWN)" /tmp/run_$p.$tier.log | cut -c1-250 | head -5
  echo "exit=$rc $(tail -1 /tmp/run_$p.$tier.log)"
done
