#!/bin/sh
# tools/try_seeded.sh <seeded-name> <PROP> [vcheck args...]  -- run a check against a seeded change applied in a
# scratch worktree (never in /repo).  Prints the check's last lines and its exit code.
set -u
name=$1; prop=$2; shift 2
wt=/tmp/seedwt/$name.$$
mkdir -p /tmp/seedwt
git -C /repo worktree add -q --detach "$wt" HEAD || exit 9
( cd "$wt" && git apply /verif/seeded/$name/patch.diff ) || { echo "patch failed"; git -C /repo worktree remove --force "$wt"; exit 9; }
cd /verif
VERIF_REPO="$wt" ./vcheck "$prop" "$@" > /tmp/seedwt/$name.$prop.log 2>&1
rc=$?
grep -E "^(VIOLATION|HARNESS-ERROR|INCONCLUSIVE|KNOWN|replay:|vcheck)" /tmp/seedwt/$name.$prop.log | cut -c1-400 | tail -8
echo "== $name on $prop: exit $rc"
git -C /repo worktree remove --force "$wt"
rm -rf /verif/build/$prop-alt*
exit $rc
