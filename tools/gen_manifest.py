#!/usr/bin/env python3
"""Regenerate /verif/MANIFEST.json from the table below (kept in one place so that it stays consistent)."""
import json, os
ROOT = os.path.dirname(os.path.dirname(os.path.abspath(__file__)))
exec(open(os.path.join(ROOT, 'tools', 'manifest_table.py')).read())
NOT_YET = "check not built yet in this round (planned, see DESIGN.md §6)"
props = [json.loads(l)["id"] for l in open(os.path.join(ROOT, "properties.jsonl"))]
m = {
 "version": 1,
 "setup_cmd": "./setup.sh",
 "hooks": {"guard": "WMAIER_TREETOOLS_VERIF", "enable": "no source hooks are needed: the harness substitutes module "
           "attributes (io/os/print) from outside; the variable is exported by vcheck for completeness",
           "baseline_off_cmd": "cd /repo && /venv/bin/python -m pytest -ra -q -p no:cacheprovider --timeout=900 "
                               "--continue-on-collection-errors",
           "source_commits": [], "add_only": True},
 "engines": [{"name": "pysym", "path": "vlib/pysym.py", "serves_properties": ["C17"], "kind_free_text": "symbolic interpreter over the AST of the current /repo source (z3 Int / QF_BVFP, cvc5 second opinion), translation validated against the real function on every run"},
             {"name": "crosshair", "path": "vlib/", "serves_properties": sorted(CHECKS),
              "kind_free_text": "symbolic execution of the real /repo modules (crosshair-tool 0.0.110, z3 5.1) driven "
                                "by vlib/worker.py; conditions generated per shard by vlib/cond.py; plain-Python replay"}],
 "checks": [],
 "not_applicable": [],
 "notes": "See DESIGN.md. Exit codes of vcheck: 0 no violation, 1 reproduced violation (VIOLATION line), 2 harness error.",
}
for p in props:
    if p in CHECKS:
        ref, text, note, tech = CHECKS[p]
        m["checks"].append({
            "property_id": p, "quick_cmd": "./vcheck %s --tier quick" % p,
            "thorough_cmd": "./vcheck %s --tier thorough" % p,
            "evidence_file": "evidence/%s.json" % p, "replay_cmd_template": "./vcheck %s --replay {path}" % p,
            "engine": "crosshair", "level_claimed": {"category": "model_checking", "text": text, "design_ref": ref},
            "level_note": note, "technique": tech})
    else:
        m["not_applicable"].append({"property_id": p, "reason": NOT_YET})
json.dump(m, open(os.path.join(ROOT, "MANIFEST.json"), "w"), indent=1)
print("MANIFEST.json: %d checks, %d not applicable" % (len(m["checks"]), len(m["not_applicable"])))
