#!/usr/bin/env python3
"""Development aid: count the inputs (assignments of the bounded parameters that satisfy the preconditions) of every
condition of a property/tier -- the number of paths CrossHair has to exhaust when every selector is realised."""
import importlib, itertools, os, sys, warnings
warnings.simplefilter("ignore")
ROOT = os.path.dirname(os.path.dirname(os.path.abspath(__file__)))
sys.path[:0] = [ROOT, os.environ.get("VERIF_REPO", "/repo")]
pid, tier = sys.argv[1], sys.argv[2]
h = importlib.import_module("harness." + pid.lower())
tot = 0
for c in h.conds(tier):
    doms = []
    for p in c.params:
        if p.kind == "bool": doms.append([False, True])
        elif p.kind == "int" and p.lo is not None and p.hi is not None: doms.append(list(range(p.lo, p.hi)))
        elif p.kind == "str": doms.append([""])
        else: doms.append([1])
    names = [p.name for p in c.params]
    pres = [compile(e, "<pre>", "eval") for e in c.pre]
    n = 0
    for combo in itertools.product(*doms):
        ns = dict(zip(names, combo)); ns["_h"] = h
        try:
            if all(eval(e, ns) for e in pres): n += 1
        except Exception: pass
    ns_ = len(list(c.shards()))
    print("%-28s %8d inputs %5d shards %8.0f per shard" % (c.name, n, ns_, n / max(ns_, 1)))
    tot += n
print("TOTAL %s %s: %d" % (pid, tier, tot))
