#!/bin/sh
# tools/try_many.sh PROP tier seed1 seed2 ...  -- run the property's check against several seeded changes (sequentially)
prop=$1; tier=$2; shift 2
for s in "$@"; do tools/try_seeded.sh $s $prop --tier $tier 2>&1 | grep -E "^(==|replay: property)" | head -3; done
