TECH = "bounded symbolic execution of the real Python functions (CrossHair + z3), counterexamples replayed"
TECHB = TECH + "; AST-to-SMT lemma (pysym + z3/cvc5) for the integer kernel"
def T(pid, what, why, trusted, tech=TECH):
    return (pid, ("DESIGN.md §6 %s" % pid,
        "Bounded model checking by symbolic execution of the real code: " + what + " z3 decides path feasibility and "
        "exhausts the path tree, so inside the stated bound the verdict covers every input, and every counterexample is "
        "replayed in plain Python against the real code before it is reported. " + why,
        "Trusted: CrossHair's execution model and z3; the reference oracle in harness/%s.py; " % pid.lower() + trusted +
        " Everything beyond the bounds listed in the evidence file (coverage.conditions[*].bounds, outside_claim) is outside the claim.",
        tech))
CHECKS = dict([
 T("C01", "the bracket lexer/automaton on every sequence of up to 6 (thorough 8) token classes incl. ill-formed ones; the export, bracket, "
   "discobracket and TIGER-XML readers on two-sentence corpora written by the harness's own encoders from a symbolic tree shape "
   "(all shapes with <= 3 constituents / 3 tokens, thorough 4/4), with symbolic layout, header, id, numbering and option selectors and an "
   "unbounded symbolic first sentence id; option consistency of gf_split / replace_parens across formats.",
   "Right level: the property quantifies over inputs and configurations; the solver enumerates exactly the well-formed inputs of the bound "
   "and certifies that no further path exists.",
   "the in-memory file system stubs (harness/stubs.py); the encoders of harness/formats.py as the meaning of 'well-formed file'."),
 T("C02", "the five writers on trees built through the Tree API for all shapes up to 3 constituents / 3 tokens (thorough 4/4), a field "
   "condition ranging over word alphabet (XML-special, non-ASCII, parentheses, tab-stop lengths 7/8/15/16) and absent/default/present "
   "lemma, morph, edge, a decoration condition over option subsets and per-node flags, two trees written in sequence by the same writer, and export_tabs for every integer length (unbounded).",
   "Right level: 'an independent decoder recovers ...' is a for-all over trees and option subsets; decoders are harness-owned.",
   "the decoders of harness/formats.py; pure-Python output stream."),
 T("C03", "transform.run (and the treetools script's main()) in-process on an in-memory file system for symbolic source format x destination "
   "format x encodings x file/directory/gzip mode over two-sentence corpora with a symbolic first tree; second hop back and A->B->C chains.",
   "Right level: totality and losslessness over configurations; expected content = reference writer semantics o reference reader semantics.",
   "file system, gzip and tempfile stubs; harness encoders/decoders; exit status and real files are outside."),
 T("C04", "each structural transformation alone and every prerequisite-respecting program of length 2 (thorough 3) on all tree shapes of the bound "
   "with punctuation/edge selectors; oracle after every step: returned node is the root of a well-formed tree, token sequence unchanged, label multiset rule.",
   "Right level: programs x inputs; dropped resets and wrong return values show up on 2-3 token trees.",
   "the prerequisite reading encoded in harness/c04.py:prereq_ok."),
 T("C05", "boyd_split and raising (with/without root_attach) on all shapes up to 3 constituents / 4 tokens (thorough 4/5) and every head assignment "
   "(symbolic head index per constituent) against a set-based reference continuification; boyd_split alone against the block structure.",
   "Right level: the statement defines the result exactly, so equality with a reference on every bounded input is decisive.",
   "head assignments by index (edge-label driven marking is C15)."),
 T("C06", "grammar.extract on treebanks built from every tree shape of the bound (repeated labels, r-fold extraction, a second tree) against a "
   "set-based expected grammar (rules, linearizations, vertical contexts, counts), fan-outs, lexicon and context-freeness.",
   "Right level: full equality of the extracted grammar with an independently computed one on every bounded treebank.",
   "block positions on arbitrary symbolic integers are discharged under C16."),
 T("C07", "grammar.binarize on a symbolic canonical LCFRS rule (V <= 4 variables, rank <= 4; thorough V <= 6), on rules with 5 and 6 right-hand-side elements with symbolic argument cuts, on two different symbolic trees extracted into one grammar, in both reorderings, deterministic and "
   "markovized (v, h in 0..2, thorough 0..3, nofanout), and on grammars extracted from every tree shape of the bound; oracle composes chains of "
   "binarized rules over named blocks.",
   "Right level: the canonical-rule space is finite per bound and is enumerated by the solver through the canonical-form precondition.",
   "the yield evaluator of harness/c07.py."),
 T("C08", "grammar.binarize in every mode on grammar skeletons extracted from the tree shapes of the bound, with every count replaced by an "
   "UNBOUNDED symbolic positive integer: per-symbol conservation equalities are proved for all counts by z3 (linear integer arithmetic).",
   "Right level: counts only flow through additions, so one symbolic path covers every count assignment; assigning instead of accumulating is refuted symbolically.",
   "the extraction side of the law is C06."),
 T("C09", "the rcg, pmcfg and lopar writers, the rcg reader and the `grammar` command (in-process) on grammars extracted and binarized from every "
   "tree shape of the bound, with three encodings and lex_in_grammar; harness decoders for PMCFG, RCG and LoPar texts.",
   "Right level: decode(write(g)) == g on every bounded grammar, in every mode.",
   "file system stubs; harness decoders."),
 T("C10", "the three transition oracles on every tree shape of the bound with every head assignment after the real transform.binarize (in-order also "
   "unbinarized); the emitted sequence is executed by harness automata and must rebuild the tree incl. unary nodes, root and head sides; also on trees that were written by the export/TIGER-XML writers or collapsed/uncollapsed before; output file with/without pos.",
   "Right level: soundness of an oracle = replay equality on every input of the bound.",
   "the three replay automata in harness/c10.py (gap: the variant the tool simulates, whose deque flush reverses gapped items; see DESIGN section 5)."),
 T("C11", "delete_terminal, punctuation_delete, ptb_delete_traces (keep/keepall/keepcoindex/slash selectors), insert/substitute_terminals with one or two "
   "edit lines from bounded (sentence id, index) selectors on an in-memory terminal file, and filter_by_length with an UNBOUNDED symbolic value.",
   "Right level: frame conditions (exactly the targeted tokens change) checked on every bounded tree and edit request.",
   "file system stubs; per-path reset of the cached terminal file (history effects are C18)."),
 T("C12", "root_attach on every tree shape up to 4 constituents / 3 tokens and 3 / 4 (thorough up to 4 / 5), child lists stored forward or reversed, "
   "against a set-based reference of the documented rule (parent of every node).",
   "Right level: the statement itself demands equality with a set-based reference on every tree.", "nothing beyond the common base."),
 T("C13", "the three punctuation re-attachments on every tree shape of the bound with every word assignment from a 3-6 word alphabet, and the "
   "relative-clause option with a symbolic position of the designated POS; post-conditions evaluated on the result.",
   "Right level: post-conditions over all punctuation placements incl. consecutive punctuation and punctuation-only constituents.",
   "the harness's own copy of the documented punctuation lists."),
 T("C14", "transform.binarize on every shape of the bound (arity up to 4, thorough 5) with every head assignment and bare_bin_labels, labels rotated through function/gap-index/co-index decorations (co-indices of 1-3 digits), the unmarked case, "
   "and collapse/uncollapse on every shape with unary chains up to length 4.",
   "Right level: reversibility is an equation on every input of the bound.", "nothing beyond the common base."),
 T("C15", "negra_mark_heads on one constituent with up to 4 children and every edge assignment plus whole trees; mark_heads_by_rules for every parent "
   "category of the preset tables (read from /repo at run time), symbolic listed child category, position and label decoration, on trees with and without earlier head marks and after an earlier call under the other preset in the same process; exactly-one-head for every parent category incl. those with an empty rule and an unknown one; rejection cases.",
   "Right level: the rule is a finite decision table per constituent.", "the reading of 'listed' = any space-separated entry of the parent's rule."),
 T("C16", "gap_degree_node / terminal_blocks / gap_degree on skeletons up to 3 constituents / 4 tokens (thorough 4 / 5) with ARBITRARY pairwise distinct "
   "symbolic token positions (unbounded); agreement of the three notions of discontinuity; treeanalysis.run in-process (sentence order symbolic); the analysis before and after transformations of the same tree; disco_order.",
   "Right level: positions are only compared and incremented, so each path stands for infinitely many position assignments.",
   "file system stubs for the command-line path."),
 T("C17", "Engine B: the current source of parse_split_specification is interpreted symbolically (vlib/pysym.py) for every specification pattern of up "
   "to 3 parts with UNBOUNDED integer numerals and treebank size, each path's result compared with the documented rule by z3 (cvc5 second opinion; "
   "falls back to QF_BVFP with numerals <= 100, size <= 2^20 if the source contains floating point). Engine A: bounded specifications through the real "
   "function, and transform.run --split in-process for every output format, specification selector and filter on corpora of up to 3 (thorough 6) sentences.",
   "Right level: the arithmetic kernel is pure integer code (a for-all over integers); the distribution part is a bounded configuration space.",
   "pysym's translation (validated on every run against the real function on 10 concrete inputs incl. the repository's test input); file system stubs.", TECHB),
 T("C18", "all histories of up to 2 (thorough 3) commands from an alphabet of 21 real command invocations followed by every probe command, in one "
   "process without resets, compared with the value the probe produces in a fresh process; additivity result(A+B) = result(A)++result(B) for 12 operations on a symbolic tree; two lazily consumed readers (all format pairs, plain/gzip, same base name in two directories) advanced in every order of the first four steps.",
   "Right level: history independence is a for-all over call sequences; the solver exhausts the bounded sequence space.",
   "fresh-process baseline computed by plain runs under four hash seeds (an auxiliary concrete observation, stated in the evidence); hash seeds beyond those are outside; temporary copies on disk are read with an 8-byte read-ahead (a reader may fetch its bytes in pieces of any size)."),
 T("C19", "the navigation API and export numbering on skeletons up to 3 constituents / 4 tokens (thorough 4 / 4 and 3 / 5), child lists forward or reversed, "
   "with ARBITRARY pairwise distinct symbolic token positions (unbounded); levels and numbering recomputed after the tree was restructured.",
   "Right level: set-based model equality on every shape; positions symbolic.", "nothing beyond the common base."),
 T("C20", "parse_label/format_label on a symbolic string (all strings up to length 4, thorough 6, over A 1 - = # ' *; default literals spliced in at a "
   "symbolic position) against a reference splitter, component clearing, trace test; get_label over option subsets.",
   "Right level: a for-all over strings on a pure string kernel that CrossHair models natively.", "alphabet of 7 representative characters."),
])
