#!/usr/bin/env python3
"""Confirm seeded changes: in a scratch worktree of /repo HEAD, each patch must apply, keep the
116 tests passing, make its demo fail, and the demo must pass without it.  Confirmed ones are
copied to /verif/seeded/<id>/ (patch.diff, demo.py, meta.json)."""
import json, os, shutil, subprocess, sys
SRC = sys.argv[1] if len(sys.argv) > 1 else "/tmp/mut/out"
WT = "/tmp/mut3/val"
def sh(cmd, cwd=WT, timeout=900):
    return subprocess.run(cmd, shell=True, cwd=cwd, capture_output=True, text=True, timeout=timeout)
if not os.path.isdir(WT):
    subprocess.check_call(["git", "-C", "/repo", "worktree", "add", "-q", "--detach", WT, "HEAD"])
head = sh("git rev-parse HEAD").stdout.strip()
only = sys.argv[2:] 
for name in sorted(os.listdir(SRC)):
    if only and name not in only: continue
    d = os.path.join(SRC, name)
    if not os.path.exists(os.path.join(d, "patch.diff")): continue
    sh("git checkout -q -- . && git clean -fdq")
    shutil.copy(os.path.join(d, "demo.py"), os.path.join(WT, "demo.py"))
    clean = sh("/venv/bin/python demo.py")
    ap = sh("git apply %s" % os.path.join(d, "patch.diff"))
    if ap.returncode != 0:
        print(name, "PATCH DOES NOT APPLY", ap.stderr[:200]); continue
    tests = sh("/venv/bin/python -m pytest -q -p no:cacheprovider 2>&1 | tail -1")
    mut = sh("/venv/bin/python demo.py")
    ok = clean.returncode == 0 and mut.returncode != 0 and "116 passed" in tests.stdout
    print(name, "OK" if ok else "REJECT", "clean_rc=%d mut_rc=%d tests=%s" % (clean.returncode, mut.returncode, tests.stdout.strip()))
    sh("git checkout -q -- . && git clean -fdq")
    if ok:
        dst = os.path.join("/verif/seeded", name)
        os.makedirs(dst, exist_ok=True)
        shutil.copy(os.path.join(d, "patch.diff"), dst)
        shutil.copy(os.path.join(d, "demo.py"), dst)
        try:
            meta = json.load(open(os.path.join(d, "meta.json")))
        except Exception:
            meta = {}
        meta["confirmed_by"] = {"base_commit": head,
            "ran": ["git apply patch.diff", "/venv/bin/python -m pytest -q -p no:cacheprovider -> " + tests.stdout.strip(),
                    "/venv/bin/python demo.py with change -> exit %d" % mut.returncode,
                    "/venv/bin/python demo.py without change -> exit %d" % clean.returncode]}
        json.dump(meta, open(os.path.join(dst, "meta.json"), "w"), indent=1)
