#!/usr/bin/env python3
"""Regenerate the generated sections of DESIGN.md: section 9 (conditions and bounds as built, from harness/*.conds) and
section 10 (seeded changes matrix, from seeded/*/result.json and meta.json)."""
import importlib, json, os, sys, warnings
warnings.simplefilter("ignore")
ROOT = os.path.dirname(os.path.dirname(os.path.abspath(__file__)))
sys.path[:0] = [ROOT, "/repo"]
out = ["## 9. Conditions and bounds as built (generated from harness/*.py)\n",
       "Per property and tier: number of conditions / CrossHair shards (= obligations, each with its vacuity twin), and per",
       "condition the real functions executed and the parameter bounds. `int in [a, b]` are bounded selectors, `[-inf, +inf]`",
       "and `[1, +inf]` are unbounded symbolic integers, `str` symbolic strings.\n"]
out.append("Measured end-to-end runs on the unchanged tree (16 cores; obligations discharged / total, paths explored, CPU seconds in")
out.append("CrossHair/z3, wall seconds), from `evidence/<id>.json` (last quick run) and `evidence/thorough/<id>.json` (last thorough")
out.append("run; where the thorough tier of a property was resized after its run the record shows the larger tier that actually ran;")
out.append("properties without a thorough record were not run end to end in the thorough tier - for those every input of the")
out.append("thorough bounds was evaluated once in plain Python against the oracle, without the solver, as a harness sanity check;")
out.append("the C07 thorough record shows 324/332: the 8 missing obligations were shards whose constants contradict the")
out.append("precondition (reported as harness errors, exit 2) - they are skipped since; the C17 record shows 4 shards of `arith-p3` that")
out.append("did not finish in their CPU budget - that condition was made smaller afterwards; the thorough records predate the")
out.append("conditions added in the fourth and fifth round of seeded changes (C05 via, C09 wide, C10 hist, C11 second tree, C13 comma")
out.append("class, C14 labels, C15 premarks / earlier call, C18 interleave / reread / eager), whose thorough tiers were not re-run end")
out.append("to end; the quick records of C05, C09-C11, C13-C15 and C18 were measured while other runs shared the 16 cores, their")
out.append("wall times are therefore up to twice what the check needs alone):\n")
out.append("| property | quick | thorough |")
out.append("|---|---|---|")
for i in range(1, 21):
    pid = "C%02d" % i
    cells = []
    for p in (os.path.join(ROOT, "evidence", pid + ".json"), os.path.join(ROOT, "evidence", "thorough", pid + ".json")):
        if os.path.exists(p):
            e = json.load(open(p))
            c = e["coverage"]
            cells.append("%d/%d, %d paths, %.0f s CPU, %.0f s wall%s" % (c["discharged"], c["obligations"], c["evaluations"],
                         c.get("solver_cpu_s", 0), e["wall_s"], (", %d inconclusive" % c["inconclusive"]) if c.get("inconclusive") else ""))
        else:
            cells.append("-")
    out.append("| %s | %s | %s |" % (pid, cells[0], cells[1]))
out.append("")
for i in range(1, 21):
    pid = "C%02d" % i
    h = importlib.import_module("harness." + pid.lower())
    out.append("### %s\n" % pid)
    for tier in ("quick", "thorough"):
        cs = h.conds(tier)
        ns = sum(len(list(c.shards())) for c in cs)
        extra = ""
        if hasattr(h, "lemmas"):
            extra = " + Engine B lemma (%s)" % ", ".join(l["module"] for l in h.lemmas(tier))
        out.append("* **%s**: %d conditions, %d shards%s" % (tier, len(cs), ns, extra))
        groups = {}
        for c in cs:
            key = c.name.split("-m")[0].split("-k")[0].split("-V")[0].split("-s")[0].split("-p")[0].split("-n")[0]
            groups.setdefault(key, []).append(c)
        for key, lst in groups.items():
            c = lst[-1]
            names = ", ".join(x.name for x in lst)
            b = "; ".join(x for x in c.bounds() if not x.startswith("fixed"))
            out.append("  * `%s` (%s): %s%s" % (key, names if len(names) < 110 else names[:107] + "...",
                                               b if len(b) < 330 else b[:327] + "...",
                                               (" -- " + c.note) if c.note else ""))
    if getattr(h, "ASSUMPTIONS", None):
        out.append("* assumptions: " + " | ".join(h.ASSUMPTIONS))
    if getattr(h, "OUTSIDE", None):
        out.append("* outside the claim: " + "; ".join(h.OUTSIDE))
    out.append("")
# ---- section 10
out.append("--------------------------------------------------------------------------\n")
out.append("## 10. Seeded changes: which checks catch which change (generated from seeded/*/result.json)\n")
out.append(open(os.path.join(ROOT, "tools", "design_sec10_intro.md")).read() if os.path.exists(os.path.join(ROOT, "tools", "design_sec10_intro.md")) else "")
out.append("| change | property | what it changes | needs to manifest | result | tier | condition | first replayed counterexample |")
out.append("|---|---|---|---|---|---|---|---|")
sd = os.path.join(ROOT, "seeded")
for name in sorted(os.listdir(sd)):
    rp = os.path.join(sd, name, "result.json")
    mp = os.path.join(sd, name, "meta.json")
    if not os.path.exists(mp):
        continue
    meta = json.load(open(mp))
    res = json.load(open(rp)) if os.path.exists(rp) else {}
    what = (meta.get("what_changed") or meta.get("fix_subject") or "").replace("|", "/").replace("\n", " ")
    needs = (meta.get("needs_to_manifest") or "").replace("|", "/").replace("\n", " ")
    if meta.get("kind") == "reverted fix":
        what = "reverts repair `%s`: %s" % (meta["reverts"], meta["fix_subject"][5:])
    out.append("| %s | %s | %s | %s | %s | %s | %s | %s |" % (
        name, res.get("property", name[:3]), what[:160], needs[:140], res.get("status", "not run"), res.get("tier", ""),
        res.get("cond", ""), ((res.get("first_replay", "") or "").replace("|", "/")[31:200] + ((" -- " + res["note"]) if res.get("note") else ""))))
text = "\n".join(out) + "\n"
p = os.path.join(ROOT, "DESIGN.md")
s = open(p).read()
marker = "## 9. Conditions and bounds as built"
if marker in s:
    s = s[:s.index(marker)]
else:
    s = s.rstrip("\n") + "\n\n--------------------------------------------------------------------------\n\n"
open(p, "w").write(s + text)
print("DESIGN.md sections 9-10 regenerated")
