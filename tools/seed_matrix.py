#!/usr/bin/env python3
"""Development aid: try the checks on every seeded change (in a scratch worktree, never in /repo).
For each seeded/<name>: (1) locate a failing condition cheaply with tools/find_witness.py (plain enumeration of the
bounded parameters), (2) run the property's real check restricted to that condition (CrossHair) and record whether it
reports a reproduced VIOLATION.  Writes seeded/<name>/result.json and prints one line per seed."""
import json, os, re, subprocess, sys, time
ROOT = os.path.dirname(os.path.dirname(os.path.abspath(__file__)))
PY = os.path.join(ROOT, ".venv/bin/python")
PROPS_FOR = {  # reverted repairs: property whose check is expected to see it
 "R01": "C17", "R02": "C17", "R03": "C02", "R04": "C02", "R05": "C02", "R06": "C01", "R07": "C02", "R08": "C01", "R09": "C14",
 "R10": "C13", "R11": "C11", "R12": "C11", "R13": "C10", "R14": "C15", "R15": "C08", "R16": "C09", "R17": "C17", "R18": "C11",
 "R19": "C09", "R20": "C09", "R21": "C03", "R22": "C03"}
EXTRA = {"C08d": ["C06"], "C03e": ["C01"], "C03f": ["C01"], "C16g": ["C06"], "C01g": ["C18"]}
names = sys.argv[1:] or sorted(os.listdir(os.path.join(ROOT, "seeded")))
for name in names:
    d = os.path.join(ROOT, "seeded", name)
    if not os.path.exists(os.path.join(d, "patch.diff")):
        continue
    prop = PROPS_FOR.get(name, name[:3])
    wt = "/tmp/seedwt/m%s" % name
    subprocess.call(["git", "-C", "/repo", "worktree", "remove", "--force", wt], stderr=subprocess.DEVNULL)
    subprocess.check_call(["git", "-C", "/repo", "worktree", "add", "-q", "--detach", wt, "HEAD"])
    res = {"seed": name, "property": prop}
    try:
        if subprocess.call(["git", "apply", os.path.join(d, "patch.diff")], cwd=wt) != 0:
            res["status"] = "patch does not apply"
        else:
            for prop_try in [prop] + EXTRA.get(name, []) + (["C18"] if prop != "C18" else []):
                env = dict(os.environ, VERIF_REPO=wt)
                cond = None
                for tier in ("quick", "thorough"):
                    env["VERIF_TIER"] = tier
                    out = subprocess.run([PY, os.path.join(ROOT, "tools/find_witness.py"), prop_try, "", "300000"], env=env,
                                         capture_output=True, text=True, timeout=3600).stdout.strip().split("\n")[-1]
                    try:
                        rec = json.loads(out)
                    except Exception:
                        rec = {"error": out[-300:]}
                    if "cond" in rec:
                        cond, res["tier"], res["witness"] = rec["cond"], tier, rec
                        break
                t0 = time.time()
                if cond is None:
                    # plain enumeration found nothing (it uses one value per unbounded parameter and few strings):
                    # let the solver look -- the whole quick check of the property
                    res["tier"] = "quick"
                    cmd = [os.path.join(ROOT, "vcheck"), prop_try, "--tier", "quick"]
                else:
                    cmd = [os.path.join(ROOT, "vcheck"), prop_try, "--tier", res["tier"], "--only", cond]
                p = subprocess.run(cmd, env=env, cwd=ROOT, capture_output=True, text=True, timeout=7200)
                res["vcheck_exit"] = p.returncode
                res["vcheck_wall_s"] = round(time.time() - t0, 1)
                v = [l for l in p.stdout.split("\n") if l.startswith("VIOLATION")]
                r = [l for l in p.stdout.split("\n") if l.startswith("replay: property")]
                res["violations"] = len(v)
                res["first_replay"] = r[0][:400] if r else ""
                res["cond"] = cond or "(whole quick check)"
                res["property"] = prop_try
                if p.returncode == 1 and v:
                    res["status"] = "CAUGHT"
                    if r:
                        mo = re.search(r"cond=(\S+)", r[0])
                        if mo and cond is None:
                            res["cond"] = mo.group(1)
                    break
                res["status"] = "MISSED (exit %d, %s)" % (p.returncode, "; ".join(l for l in p.stdout.split("\n") if l.startswith(("INCONCLUSIVE", "HARNESS")))[:200])
                subprocess.call("rm -rf %s/build/%s-alt*" % (ROOT, prop_try), shell=True)
    finally:
        subprocess.call(["git", "-C", "/repo", "worktree", "remove", "--force", wt])
        pass    # (build/<prop>-alt* is removed per property above; a global removal would disturb parallel streams)
    json.dump(res, open(os.path.join(d, "result.json"), "w"), indent=1)
    print(name, prop, res.get("status"), res.get("tier", ""), res.get("cond", ""), res.get("vcheck_wall_s", ""), flush=True)
