#!/usr/bin/env python3
"""Development aid: (re)build known_findings.json 'fixed' entries -- for every repair commit in /repo a witness input
(harness function + arguments) that fails on the tree with that repair reverted.  The file is committed and read-only
at check time."""
import json, os, subprocess, sys
ROOT = os.path.dirname(os.path.dirname(os.path.abspath(__file__)))
TABLE = [  # seeded revert, property, condition filter, other properties whose checks also see it
 ("R01", "C17", "percent"), ("R02", "C17", "arith-p1"), ("R03", "C02", "fields"), ("R04", "C02", "fields"),
 ("R05", "C02", "decor"), ("R06", "C01", "brackets"), ("R07", "C02", "fields"), ("R08", "C01", "options"),
 ("R09", "C14", "collapse"), ("R10", "C13", "punct"), ("R11", "C11", "punctdel"), ("R12", "C11", "edit1"),
 ("R13", "C10", "replay"), ("R14", "C15", "rules"), ("R15", "C08", "counts"), ("R16", "C09", "cmd"),
 ("R17", "C17", "distribute"), ("R18", "C11", "traces"), ("R19", "C09", "files"), ("R20", "C09", "files"),
 ("R21", "C03", "convert"), ("R22", "C03", "convert"),
]
fixed = []
for seed, prop, sub in TABLE:
    meta = json.load(open(os.path.join(ROOT, "seeded", seed, "meta.json")))
    wt = "/tmp/seedwt/k" + seed
    subprocess.check_call(["git", "-C", "/repo", "worktree", "add", "-q", "--detach", wt, "HEAD"])
    try:
        subprocess.check_call(["git", "apply", os.path.join(ROOT, "seeded", seed, "patch.diff")], cwd=wt)
        env = dict(os.environ, VERIF_REPO=wt, VERIF_TIER=os.environ.get("VERIF_TIER", "quick"))
        out = subprocess.run([os.path.join(ROOT, ".venv/bin/python"), os.path.join(ROOT, "tools/find_witness.py"), prop, sub],
                             env=env, capture_output=True, text=True).stdout.strip().split("\n")[-1]
        rec = json.loads(out)
    finally:
        subprocess.call(["git", "-C", "/repo", "worktree", "remove", "--force", wt])
    if "fn" not in rec:
        print(seed, "NO WITNESS", rec); continue
    full = subprocess.run(["git", "-C", "/repo", "rev-parse", meta["reverts"]], capture_output=True, text=True).stdout.strip()
    fixed.append({"id": seed, "property": prop, "commit": full,
                  "what": "%s (before the repair: %s)" % (meta["fix_subject"][5:], rec["reason"][:160]),
                  "line": "fixed: property=%s %s %s" % (prop, full[:12], meta["fix_subject"][5:]),
                  "witness": {"fn": rec["fn"], "kwargs": rec["kwargs"]}})
    print(seed, prop, rec["cond"], rec["reason"][:100])
path = os.path.join(ROOT, "known_findings.json")
cur = json.load(open(path)) if os.path.exists(path) else {"open": []}
cur["fixed"] = fixed
cur.setdefault("open", [])
cur["_comment"] = ("open: genuine defects recorded but not repaired (none at present). fixed: defects repaired by a 'fix:' "
                   "commit in /repo; a fixed entry suppresses nothing -- its witness is replayed by the property's check on "
                   "every run and reported as a VIOLATION if it fails again.")
json.dump(cur, open(path, "w"), indent=1, sort_keys=True)
