#!/bin/sh
# Build the overlay interpreter used by every check (offline, ~10 s).
# Same CPython as /venv (3.12.1, the one the test-suite runs on) + crosshair-tool, z3, cvc5.
set -e
cd "$(dirname "$0")"
if [ -x .venv/bin/python ] && .venv/bin/python -c 'import crosshair, z3, cvc5, jsonschema' 2>/dev/null; then
    echo "setup: .venv already complete"
    exit 0
fi
rm -rf .venv
/venv/bin/python -m venv .venv
PIP_NO_INDEX=1 .venv/bin/pip install -q --no-index --find-links /opt/veriftools/wheels \
    crosshair-tool z3-solver cvc5 jsonschema
echo "setup: done"
